package main

// Go types -> SMT sorts; datatype declarations; prelude.

import (
	"fmt"
	"go/types"
	"strings"
)

// StructInfo describes a Go struct modelled as an SMT datatype.
type StructInfo struct {
	Name   string // datatype name
	Ctor   string
	Fields []FieldInfo
	GoType *types.Struct
}
type FieldInfo struct {
	Name string // Go field name
	Sel  string // SMT selector
	S    *Sort
	T    types.Type
}

type SliceInfo struct {
	Name string
	Elem *Sort
	S    *Sort
}

type MapInfo struct {
	Name string
	K, V *Sort
	S    *Sort
}

type World struct {
	structs   map[string]*StructInfo // by datatype name
	structOf  map[*types.Struct]*StructInfo
	slices    map[string]*SliceInfo // by elem sort string
	maps      map[string]*MapInfo
	declOrder []string // datatype declarations in order
	decls     map[string]string
	strLits   map[string]*Term
	strOrder  []string
	funcIDs   map[string]int // function value ids
	funcOrder []string
	unsupported []string
}

func newWorld() *World {
	return &World{
		structs: map[string]*StructInfo{}, structOf: map[*types.Struct]*StructInfo{},
		slices: map[string]*SliceInfo{}, maps: map[string]*MapInfo{},
		decls: map[string]string{}, strLits: map[string]*Term{}, funcIDs: map[string]int{},
	}
}

func sortIdent(s *Sort) string {
	r := strings.NewReplacer("(", "", ")", "", " ", "_", "_BitVec", "BV")
	return r.Replace(s.S)
}

// SortOf maps a Go type to an SMT sort.
func (w *World) SortOf(t types.Type) *Sort {
	switch u := t.(type) {
	case *types.Named:
		if u.Obj().Name() == "ASTNode" && u.Obj().Pkg() != nil && u.Obj().Pkg().Name() == "jmespath" {
			return SNode
		}
		if u.Obj().Name() == "error" && u.Obj().Pkg() == nil {
			return SErr
		}
		if pk := u.Obj().Pkg(); pk != nil && pk.Path() == "reflect" && u.Obj().Name() == "Kind" {
			return SInt
		}
		if st, ok := u.Underlying().(*types.Struct); ok {
			if pk := u.Obj().Pkg(); pk != nil && pk.Name() != "jmespath" && pk.Name() != "main" {
				switch pk.Path() + "." + u.Obj().Name() {
				case "bytes.Buffer":
					return SStr // modelled by its contents
				case "reflect.Value":
					return w.rvSort()
				}
				n := "Opaque_" + pk.Name() + "_" + u.Obj().Name()
				if _, ok := w.decls[n]; !ok {
					w.addDecl(n, "(declare-sort "+n+" 0)")
				}
				return mkSort(n)
			}
			return w.structSort(u.Obj().Name(), u.Obj().Pkg(), st)
		}
		if _, ok := u.Underlying().(*types.Interface); ok {
			if u.Obj().Name() == "error" {
				return SErr
			}
			return SVal
		}
		return w.SortOf(u.Underlying())
	case *types.Alias:
		return w.SortOf(types.Unalias(u))
	case *types.Basic:
		switch u.Kind() {
		case types.Bool, types.UntypedBool:
			return SBool
		case types.Int, types.Int64, types.UntypedInt:
			return SInt
		case types.Int32, types.UntypedRune, types.Uint32:
			return SBV32
		case types.Uint8, types.Int8:
			return SBV8
		case types.Uint16, types.Int16:
			return SBV(16)
		case types.Uint64, types.Uint, types.Uintptr:
			return SBV64
		case types.Float64, types.UntypedFloat:
			return SF64
		case types.String, types.UntypedString:
			return SStr
		case types.UntypedNil:
			return SVal
		}
		return mkSort("Unsupported_" + u.Name())
	case *types.Interface:
		return SVal
	case *types.Slice:
		return w.sliceSort(w.SortOf(u.Elem())).S
	case *types.Array:
		return SArray(SInt, w.SortOf(u.Elem()))
	case *types.Map:
		return w.mapSort(w.SortOf(u.Key()), w.SortOf(u.Elem())).S
	case *types.Pointer:
		// pointer to basic type: optional value; pointer to struct: Ref (Int)
		if b, ok := u.Elem().Underlying().(*types.Basic); ok && b.Kind() == types.Int {
			return w.pintSort()
		}
		return SInt
	case *types.Signature:
		return SInt // function value id
	case *types.Struct:
		return w.structSort("", nil, u)
	case *types.Tuple:
		return SUnit
	}
	return mkSort("Unsupported")
}

// reflect.Value: the wrapped dynamic value plus validity / read-only (unexported) flags.
func (w *World) rvSort() *Sort {
	if _, ok := w.decls["RV"]; !ok {
		w.addDecl("RV", "(declare-datatypes ((RV 0)) (((mkRV (rv_val Val) (rv_valid Bool) (rv_ro Bool)))))")
	}
	return mkSort("RV")
}

func (w *World) pintSort() *Sort {
	return mkSort("PInt")
}

func (w *World) addDecl(name, text string) {
	w.decls[name] = text
	w.declOrder = append(w.declOrder, name)
}

func (w *World) structSort(name string, pkg *types.Package, st *types.Struct) *Sort {
	if si, ok := w.structOf[st]; ok {
		return mkSort(si.Name)
	}
	if name == "" {
		name = fmt.Sprintf("anon%d", len(w.structs))
	}
	dn := "S_" + name
	if pkg != nil && pkg.Name() != "jmespath" && pkg.Name() != "main" {
		dn = "S_" + pkg.Name() + "_" + name
	}
	si := &StructInfo{Name: dn, Ctor: "mk_" + name, GoType: st}
	w.structOf[st] = si
	w.structs[dn] = si
	for i := 0; i < st.NumFields(); i++ {
		f := st.Field(i)
		fs := w.SortOf(f.Type())
		si.Fields = append(si.Fields, FieldInfo{Name: f.Name(), Sel: name + "_" + f.Name(), S: fs, T: f.Type()})
	}
	var sb strings.Builder
	fmt.Fprintf(&sb, "(declare-datatypes ((%s 0)) (((%s", dn, si.Ctor)
	for _, f := range si.Fields {
		fmt.Fprintf(&sb, " (%s %s)", f.Sel, f.S.S)
	}
	if len(si.Fields) == 0 {
		// nothing
	}
	sb.WriteString("))))")
	w.addDecl(dn, sb.String())
	return mkSort(dn)
}

func (w *World) StructInfoOfSort(s *Sort) *StructInfo { return w.structs[s.S] }

func (w *World) sliceSort(elem *Sort) *SliceInfo {
	if si, ok := w.slices[elem.S]; ok {
		return si
	}
	name := "Sl_" + sortIdent(elem)
	si := &SliceInfo{Name: name, Elem: elem, S: mkSort(name)}
	w.slices[elem.S] = si
	w.addDecl(name, fmt.Sprintf("(declare-datatypes ((%s 0)) (((mk_%s (arr_%s (Array Int %s)) (len_%s Int) (nil_%s Bool)))))\n(declare-fun appendAll_%s (%s %s) %s)",
		name, name, name, elem.S, name, name, name, name, name, name))
	return si
}
func (w *World) SliceInfoOfSort(s *Sort) *SliceInfo {
	for _, si := range w.slices {
		if si.S == s {
			return si
		}
	}
	return nil
}

func (w *World) mapSort(k, v *Sort) *MapInfo {
	key := k.S + "=>" + v.S
	if mi, ok := w.maps[key]; ok {
		return mi
	}
	name := "Mp_" + sortIdent(k) + "_" + sortIdent(v)
	mi := &MapInfo{Name: name, K: k, V: v, S: mkSort(name)}
	w.maps[key] = mi
	w.addDecl(name, fmt.Sprintf("(declare-datatypes ((%s 0)) (((mk_%s (dom_%s (Array %s Bool)) (val_%s (Array %s %s)) (size_%s Int) (nil_%s Bool)))))",
		name, name, name, k.S, name, k.S, v.S, name, name))
	return mi
}
func (w *World) MapInfoOfSort(s *Sort) *MapInfo {
	for _, mi := range w.maps {
		if mi.S == s {
			return mi
		}
	}
	return nil
}

// slice helpers
func (w *World) SlArr(s *Term) *Term {
	si := w.SliceInfoOfSort(s.S)
	if s.Head == "mk_"+si.Name {
		return s.Args[0]
	}
	return App("arr_"+si.Name, SArray(SInt, si.Elem), s)
}
func (w *World) SlLen(s *Term) *Term {
	si := w.SliceInfoOfSort(s.S)
	if s.Head == "mk_"+si.Name {
		return s.Args[1]
	}
	return App("len_"+si.Name, SInt, s)
}
func (w *World) SlNil(s *Term) *Term {
	si := w.SliceInfoOfSort(s.S)
	if s.Head == "mk_"+si.Name {
		return s.Args[2]
	}
	return App("nil_"+si.Name, SBool, s)
}
func (w *World) MkSlice(elem *Sort, arr, ln, isnil *Term) *Term {
	si := w.sliceSort(elem)
	return App("mk_"+si.Name, si.S, arr, ln, isnil)
}

// map helpers
func (w *World) MpDom(m *Term) *Term {
	mi := w.MapInfoOfSort(m.S)
	if m.Head == "mk_"+mi.Name {
		return m.Args[0]
	}
	return App("dom_"+mi.Name, SArray(mi.K, SBool), m)
}
func (w *World) MpVal(m *Term) *Term {
	mi := w.MapInfoOfSort(m.S)
	if m.Head == "mk_"+mi.Name {
		return m.Args[1]
	}
	return App("val_"+mi.Name, SArray(mi.K, mi.V), m)
}
func (w *World) MpSize(m *Term) *Term {
	mi := w.MapInfoOfSort(m.S)
	if m.Head == "mk_"+mi.Name {
		return m.Args[2]
	}
	return App("size_"+mi.Name, SInt, m)
}
func (w *World) MpNil(m *Term) *Term {
	mi := w.MapInfoOfSort(m.S)
	if m.Head == "mk_"+mi.Name {
		return m.Args[3]
	}
	return App("nil_"+mi.Name, SBool, m)
}
func (w *World) MkMap(mi *MapInfo, dom, val, size, isnil *Term) *Term {
	return App("mk_"+mi.Name, mi.S, dom, val, size, isnil)
}

// struct helpers
func (w *World) Field(s *Term, name string) *Term {
	si := w.structs[s.S.S]
	if si == nil {
		panic("not a struct sort: " + s.S.S)
	}
	for i, f := range si.Fields {
		if f.Name == name {
			if s.Head == si.Ctor && len(s.Args) == len(si.Fields) {
				return s.Args[i]
			}
			return App(f.Sel, f.S, s)
		}
	}
	panic("no field " + name + " in " + si.Name)
}
func (w *World) WithField(s *Term, name string, v *Term) *Term {
	si := w.structs[s.S.S]
	args := make([]*Term, len(si.Fields))
	for i, f := range si.Fields {
		if f.Name == name {
			args[i] = v
		} else {
			args[i] = w.Field(s, f.Name)
		}
	}
	return App(si.Ctor, s.S, args...)
}

// String literal constants.
func (w *World) StrLit(s string) *Term {
	if t, ok := w.strLits[s]; ok {
		return t
	}
	// strings are modelled as an uninterpreted domain represented by Int (so that array defaults are
	// values for every solver); literal k is the k-th distinct string constant met so far
	t := mk(fmt.Sprint(len(w.strLits)), SStr)
	w.strLits[s] = t
	w.strOrder = append(w.strOrder, s)
	return t
}

func (w *World) FuncID(name string) *Term {
	id, ok := w.funcIDs[name]
	if !ok {
		id = len(w.funcIDs) + 1
		w.funcIDs[name] = id
		w.funcOrder = append(w.funcOrder, name)
	}
	return IntLit(int64(id))
}

// ---- Val / Node helpers ----

func VIs(ctor string, v *Term) *Term {
	if len(v.Args) >= 0 && strings.HasPrefix(v.Head, "V") && v.S == SVal && isValCtor(v.Head) {
		return BoolLit(v.Head == ctor)
	}
	return App("(_ is "+ctor+")", SBool, v)
}

var valCtors = map[string]bool{"VNil": true, "VBool": true, "VNum": true, "VStr": true, "VArr": true, "VObj": true,
	"VExpRef": true, "VInt": true, "VTok": true, "VIntPtrs": true, "VIntr": true, "VGo": true}

func isValCtor(h string) bool { return valCtors[h] }

func vsel(sel string, s *Sort, ctor string, idx int, v *Term) *Term {
	if v.Head == ctor && len(v.Args) > idx {
		return v.Args[idx]
	}
	return App(sel, s, v)
}

var VNil = mk("VNil", SVal)

func VBool(b *Term) *Term { return App("VBool", SVal, b) }
func VNum(f *Term) *Term  { return App("VNum", SVal, f) }
func VStr(s *Term) *Term  { return App("VStr", SVal, s) }
func VArr(arr, ln, isnil *Term) *Term {
	return App("VArr", SVal, arr, ln, isnil)
}
func VObj(dom, val, size, isnil *Term) *Term { return App("VObj", SVal, dom, val, size, isnil) }

func VBoolOf(v *Term) *Term { return vsel("vbool", SBool, "VBool", 0, v) }
func VNumOf(v *Term) *Term  { return vsel("vnum", SF64, "VNum", 0, v) }
func VStrOf(v *Term) *Term  { return vsel("vstr", SStr, "VStr", 0, v) }
func VArrOf(v *Term) *Term  { return vsel("varr", SArray(SInt, SVal), "VArr", 0, v) }
func VLenOf(v *Term) *Term  { return vsel("vlen", SInt, "VArr", 1, v) }
func VArrNil(v *Term) *Term { return vsel("varrnil", SBool, "VArr", 2, v) }
func VDomOf(v *Term) *Term  { return vsel("vdom", SArray(SStr, SBool), "VObj", 0, v) }
func VMapOf(v *Term) *Term  { return vsel("vmap", SArray(SStr, SVal), "VObj", 1, v) }
func VSizeOf(v *Term) *Term { return vsel("vsize", SInt, "VObj", 2, v) }
func VObjNil(v *Term) *Term { return vsel("vobjnil", SBool, "VObj", 3, v) }
func VRefOf(v *Term) *Term  { return vsel("vref", SNode, "VExpRef", 0, v) }
func VIntOf(v *Term) *Term  { return vsel("vint", SInt, "VInt", 0, v) }
func VTokOf(v *Term) *Term  { return vsel("vtok", SInt, "VTok", 0, v) }

func NType(n *Term) *Term { return vsel("ntype", SInt, "mkNode", 0, n) }
func NVal(n *Term) *Term  { return vsel("nval", SVal, "mkNode", 1, n) }
func NKids(n *Term) *Term { return vsel("kids", SArray(SInt, SNode), "mkNode", 2, n) }
func NNKids(n *Term) *Term {
	return vsel("nkids", SInt, "mkNode", 3, n)
}
func MkNode(t, v, kids, n *Term) *Term { return App("mkNode", SNode, t, v, kids, n) }

const preludeText = `
(define-sort Str () Int)
(define-sort F64 () (_ FloatingPoint 11 53))
(declare-datatypes ((Unit 0)) (((unit))))
(declare-datatypes ((PInt 0)) (((pnil) (pref (pval Int)))))
(declare-datatypes ((Val 0) (Node 0)) (
  ((VNil) (VBool (vbool Bool)) (VNum (vnum F64)) (VStr (vstr Str))
   (VArr (varr (Array Int Val)) (vlen Int) (varrnil Bool))
   (VObj (vdom (Array Str Bool)) (vmap (Array Str Val)) (vsize Int) (vobjnil Bool))
   (VExpRef (vref Node))
   (VInt (vint Int)) (VTok (vtok Int))
   (VIntPtrs (vp0 PInt) (vp1 PInt) (vp2 PInt) (vpn Int))
   (VIntr (vintr Int))
   (VGo (vgokind Int) (vgoid Int)))
  ((NodeBottom) (mkNode (ntype Int) (nval Val) (kids (Array Int Node)) (nkids Int)))
))
(declare-datatypes ((Err 0)) (((ErrNil) (ErrSyntax (emsg Str) (eexpr Str) (eoff Int)) (ErrOther (eid Int)))))
; float64 ordering comparisons are kept abstract (uninterpreted): the code and the specification apply
; the same operation to the same operands, so no property of the order is needed; this avoids
; bit-blasting. (Sound: every proof holds for any interpretation, in particular IEEE-754's.)
(declare-fun f64.lt (F64 F64) Bool)
(declare-fun f64.leq (F64 F64) Bool)
(declare-fun f64.gt (F64 F64) Bool)
(declare-fun f64.geq (F64 F64) Bool)
; division is kept abstract as well: only avg() divides, code and specification divide the same operands
(declare-fun f64.div (F64 F64) F64)
(declare-fun gs.len (Str) Int)
(declare-fun gs.at (Str Int) (_ BitVec 8))
(declare-fun gs.sub (Str Int Int) Str)
(declare-fun gs.cat (Str Str) Str)
(declare-fun gs.lt (Str Str) Bool)
(declare-fun gs.fromRune ((_ BitVec 32)) Str)
`

// smtTokens splits SMT-LIB text into its symbol tokens.
func smtTokens(text string, into map[string]bool) {
	start := -1
	for i := 0; i <= len(text); i++ {
		var c byte = ' '
		if i < len(text) {
			c = text[i]
		}
		if c == '(' || c == ')' || c == ' ' || c == '\n' || c == '\t' {
			if start >= 0 {
				into[text[start:i]] = true
				start = -1
			}
		} else if start < 0 {
			start = i
		}
	}
}

// declSymbols: the sort, constructor and selector names a declaration introduces.
func declSymbols(text string) []string {
	toks := map[string]bool{}
	smtTokens(text, toks)
	var out []string
	for t := range toks {
		switch t {
		case "declare-datatypes", "declare-sort", "declare-fun", "Array", "Int", "Bool", "0", "Str", "F64", "Val", "Node", "Err", "_", "BitVec", "8", "16", "32", "64":
			continue
		}
		out = append(out, t)
	}
	return out
}

// Prelude emits the fixed prelude plus the datatypes and string literals the body text uses.
func (w *World) Prelude(body string, usedLits map[string]bool) string {
	var sb strings.Builder
	sb.WriteString(preludeText)
	used := map[string]bool{}
	smtTokens(body, used)
	need := map[string]bool{}
	defines := map[string][]string{}
	for _, n := range w.declOrder {
		defines[n] = declSymbols(w.decls[n])
	}
	changed := true
	for changed {
		changed = false
		for _, n := range w.declOrder {
			if need[n] {
				continue
			}
			hit := false
			for _, sym := range defines[n] {
				// a declaration is needed if something it defines is used (sort names are
				// defined by exactly one declaration: the one whose name it is)
				if used[sym] && (sym == n || !isSortName(w, sym)) {
					hit = true
					break
				}
			}
			if hit {
				need[n] = true
				smtTokens(w.decls[n], used)
				changed = true
			}
		}
	}
	for _, n := range w.declOrder {
		if need[n] {
			sb.WriteString(w.decls[n])
			sb.WriteByte('\n')
		}
	}
	// string literals: distinct constants with known lengths
	if len(w.strOrder) > 0 {
		for _, s := range w.strOrder {
			t := w.strLits[s]
			if !usedLits[t.Head] {
				continue
			}
			fmt.Fprintf(&sb, "; string literal %s = %q\n", t.Head, s)
			fmt.Fprintf(&sb, "(assert (= (gs.len %s) %d))\n", t.Head, len(s))
			if len(s) <= 4 {
				for i := 0; i < len(s); i++ {
					fmt.Fprintf(&sb, "(assert (= (gs.at %s %d) (_ bv%d 8)))\n", t.Head, i, s[i])
				}
			}

		}
	}
	return sb.String()
}

func isSortName(w *World, sym string) bool {
	_, ok := w.decls[sym]
	return ok
}
