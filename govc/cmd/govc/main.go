package main

import (
	"flag"
	"fmt"
	"os"
	"sort"
	"strings"
	"time"
)

func main() {
	if len(os.Args) < 2 {
		fmt.Fprintln(os.Stderr, "usage: govc <verify|check|replay|selftest> ...")
		os.Exit(2)
	}
	switch os.Args[1] {
	case "verify":
		cmdVerify(os.Args[2:])
	case "check":
		os.Exit(cmdCheck(os.Args[2:]))
	case "ssa":
		p := setup("/repo", "quick")
		for _, n := range os.Args[2:] {
			if f := p.funcs[n]; f != nil {
				f.WriteTo(os.Stdout)
			}
		}
	case "bindings":
		os.Exit(cmdBindings(os.Args[2:]))
	case "replay":
		os.Exit(cmdReplay(os.Args[2:]))
	default:
		fmt.Fprintln(os.Stderr, "unknown command", os.Args[1])
		os.Exit(2)
	}
}

func setup(repo, tier string) *Prog {
	p, err := LoadProg(repo)
	if err != nil {
		fmt.Fprintln(os.Stderr, "load:", err)
		os.Exit(2)
	}
	p.tier = tier
	p.needAppendAxiom = map[string]bool{}
	p.sortAxioms = map[string]*Sort{}
	p.copyAxioms = map[string]*Sort{}
	p.permAxioms = map[string]*Sort{}
	p.ghostSorts = map[string]*Sort{}
	vd := os.Getenv("GOVC_VERIF")
	if vd == "" {
		vd = "/verif"
	}
	if err := p.loadRawSpecs(vd + "/spec/raw_specs.smt2"); err != nil {
		fmt.Fprintln(os.Stderr, "raw specs:", err)
	}
	p.loadSpecSigs()
	p.loadBindings(vd + "/bindings.json")
	p.buildSCC()
	func() {
		defer func() {
			if r := recover(); r != nil {
				p.setupErrors = append(p.setupErrors, fmt.Sprint("package initialiser: ", r))
			}
		}()
		if errs := p.evalGlobals(); len(errs) > 0 {
			for _, e := range errs {
				fmt.Fprintln(os.Stderr, "globals:", e)
				p.setupErrors = append(p.setupErrors, "package initialiser: "+e)
			}
		}
	}()
	return p
}

// cmdVerify: development entry point — verify named functions and print obligations.
func cmdVerify(args []string) {
	fs := flag.NewFlagSet("verify", flag.ExitOnError)
	repo := fs.String("repo", "/repo", "repository root")
	timeout := fs.Duration("timeout", 10*time.Second, "per-obligation timeout")
	dump := fs.String("dump", "", "directory to keep SMT queries")
	verbose := fs.Bool("v", false, "verbose")
	tier := fs.String("tier", "quick", "tier")
	only := fs.String("only", "", "substring filter on obligation names")
	fs.Parse(args)
	p := setup(*repo, *tier)
	names := fs.Args()
	if len(names) == 0 {
		names = p.cs.Order
	}
	dir := *dump
	if dir == "" {
		d, _ := os.MkdirTemp("", "govc")
		dir = d
		defer os.RemoveAll(d)
	} else {
		os.MkdirAll(dir, 0o755)
	}
	total, proved := 0, 0
	if len(fs.Args()) == 0 || *only == "lemma" {
		lo := p.lemmaObligations()
		p.dischargeAll(lo, *timeout, dir, 8)
		for _, o := range lo {
			fmt.Printf("   [%s] %-8s %s (%s %.2fs)\n", verdictMark(o.Verdict), o.Verdict, o.Name, o.Solver, o.Secs)
			total++
			if o.Verdict == "unsat" {
				proved++
			}
		}
	}
	for _, n := range names {
		if _, ok := p.funcs[baseName(n)]; !ok {
			fmt.Printf("!! no such function %s\n", n)
			continue
		}
		start := time.Now()
		ex := p.verifyFunc(n)
		var obls []*Obligation
		for _, o := range ex.obls {
			if *only == "" || strings.Contains(o.Name, *only) {
				obls = append(obls, o)
			}
		}
		fdir := dir + "/" + strings.NewReplacer("(", "", ")", "", "*", "", "/", "_").Replace(n)
		os.MkdirAll(fdir, 0o755)
		p.dischargeAll(obls, *timeout, fdir, 12)
		np := 0
		for _, o := range obls {
			if o.Verdict == "unsat" {
				np++
			}
		}
		fmt.Printf("== %s: %d obligations, %d proved, %d unsupported notes (%.1fs)\n", n, len(obls), np, len(ex.unsupported), time.Since(start).Seconds())
		for _, u := range ex.unsupported {
			fmt.Printf("   UNSUPPORTED: %s\n", u)
		}
		for i, o := range obls {
			if o.Verdict != "unsat" || *verbose {
				fmt.Printf("   [%s] %-8s %s  {%s}  (%s %.2fs) q%04d\n      %s\n", verdictMark(o.Verdict), o.Verdict, o.Name, strings.Join(o.Props, ","), o.Solver, o.Secs, i, o.Where)
				if o.Verdict == "error" {
					fmt.Printf("      %s\n", firstLines(o.Output, 3))
				}
			}
		}
		total += len(obls)
		proved += np
	}
	fmt.Printf("TOTAL %d obligations, %d proved\n", total, proved)
	var as []string
	for a := range p.assumptions {
		as = append(as, a)
	}
	sort.Strings(as)
	if *verbose {
		for _, a := range as {
			fmt.Println("ASSUME:", a)
		}
	}
}

func verdictMark(v string) string {
	if v == "unsat" {
		return "ok"
	}
	return "!!"
}

func firstLines(s string, n int) string {
	ls := strings.Split(s, "\n")
	if len(ls) > n {
		ls = ls[:n]
	}
	return strings.Join(ls, " | ")
}

