package main

// Query construction and the solver portfolio.

import (
	"bytes"
	"context"
	"fmt"
	"os"
	"os/exec"
	"path/filepath"
	"sort"
	"strings"
	"sync"
	"time"
)

const fixedDefs = `
(define-fun go.div ((a Int) (b Int)) Int (ite (>= a 0) (ite (> b 0) (div a b) (- (div a (- b)))) (ite (> b 0) (- (div (- a) b)) (div (- a) (- b)))))
(define-fun go.rem ((a Int) (b Int)) Int (- a (* b (go.div a b))))
(define-fun valComparable ((a Val) (b Val)) Bool (not (or
  (and ((_ is VArr) a) ((_ is VArr) b)) (and ((_ is VObj) a) ((_ is VObj) b))
  (and ((_ is VExpRef) a) ((_ is VExpRef) b)) (and ((_ is VIntPtrs) a) ((_ is VIntPtrs) b))
  (and ((_ is VGo) a) ((_ is VGo) b)))))
(define-fun kindOf ((v Val)) Int (ite ((_ is VNil) v) 0 (ite ((_ is VBool) v) 1 (ite ((_ is VNum) v) 14 (ite ((_ is VStr) v) 24
  (ite ((_ is VArr) v) 23 (ite ((_ is VObj) v) 21 (ite ((_ is VExpRef) v) 25 (ite ((_ is VInt) v) 2 (ite ((_ is VTok) v) 2
  (ite ((_ is VIntPtrs) v) 23 (ite ((_ is VIntr) v) 22 (vgokind v)))))))))))))
(define-fun valEq ((a Val) (b Val)) Bool (ite (and ((_ is VNum) a) ((_ is VNum) b)) (fp.eq (vnum a) (vnum b)) (= a b)))
`

// BuildQuery renders the SMT-LIB script for an obligation.
// mentionsHeavy: does the term mention a translated recursive spec function (the evaluation spec family)?
func (p *Prog) mentionsHeavy(t *Term, memo map[int]bool) bool {
	if v, ok := memo[t.id]; ok {
		return v
	}
	r := false
	if sd, ok := p.specs[t.Head]; ok && sd.Raw == "" && len(t.Args) == len(sd.Params) && len(t.Args) > 0 && p.specIsRecursive(t.Head) && p.heavySpec(t.Head) {
		r = true
	}
	if !r {
		for _, a := range t.Args {
			if p.mentionsHeavy(a, memo) {
				r = true
				break
			}
		}
	}
	memo[t.id] = r
	return r
}

// heavySpec: spec functions that belong to the same recursive family as specEval.
func (p *Prog) heavySpec(name string) bool {
	return true
}

func (p *Prog) heavySpecOld(name string) bool {
	if _, ok := p.specs["specEval"]; !ok {
		return false
	}
	if name == "specEval" {
		return true
	}
	p.ensureSpec(name)
	seen := map[string]bool{}
	var reach func(n string) bool
	reach = func(n string) bool {
		if n == "specEval" {
			return true
		}
		if seen[n] {
			return false
		}
		seen[n] = true
		sd := p.specs[n]
		if sd == nil {
			return false
		}
		p.ensureSpec(n)
		for _, d := range sd.Deps {
			if reach(d) {
				return true
			}
		}
		return false
	}
	return reach(name)
}

// termConsts collects the declared constants a term mentions (memoised per term id).
func (p *Prog) termConsts(t *Term, memo map[int][]string) []string {
	if r, ok := memo[t.id]; ok {
		return r
	}
	set := map[string]bool{}
	var rec func(x *Term)
	seen := map[int]bool{}
	rec = func(x *Term) {
		if seen[x.id] {
			return
		}
		seen[x.id] = true
		if len(x.Args) == 0 {
			if _, ok := p.consts[x.Head]; ok {
				set[x.Head] = true
			}
			return
		}
		for _, a := range x.Args {
			rec(a)
		}
	}
	rec(t)
	var out []string
	for k := range set {
		out = append(out, k)
	}
	memo[t.id] = out
	return out
}

// BuildQueryCOI keeps only the hypotheses in the goal's cone of influence: facts sharing
// (transitively) a declared constant with the goal. Dropping hypotheses is sound.
func (p *Prog) BuildQueryCOI(o *Obligation) (string, bool) {
	facts := p.relevantFacts(o)
	memo := map[int][]string{}
	in := map[string]bool{}
	for _, c := range p.termConsts(o.Goal, memo) {
		in[c] = true
	}
	taken := make([]bool, len(facts))
	changed := true
	for changed {
		changed = false
		for i, f := range facts {
			if taken[i] {
				continue
			}
			cs := p.termConsts(f, memo)
			hit := len(cs) == 0
			for _, c := range cs {
				if in[c] {
					hit = true
					break
				}
			}
			if hit {
				taken[i] = true
				changed = true
				for _, c := range cs {
					in[c] = true
				}
			}
		}
	}
	var asserts []*Term
	dropped := 0
	for i, f := range facts {
		if taken[i] {
			asserts = append(asserts, f)
		} else {
			dropped++
		}
	}
	if dropped == 0 {
		return "", false
	}
	asserts = append(asserts, Not(o.Goal))
	asserts = append(asserts, p.unfoldFor(o, asserts)...)
	if !o.noLemmas {
		asserts = append(asserts, p.lemmaAxiomsFor(asserts)...)
	}
	return p.buildScript(asserts, nil), true
}

// unfoldFor: instances for the applications in the goal (with fuel), plus one unfolding of the
// applications in the most recent hypotheses (loop invariants / induction hypotheses of the last calls).
func (p *Prog) unfoldFor(o *Obligation, asserts []*Term) []*Term {
	// equalities among the unconditional hypotheses (requires) of this function
	extraEqs = nil
	for _, f := range asserts {
		if f.Head == "=" && len(f.Args) == 2 && !isIntLitTerm(f.Args[0]) && !isIntLitTerm(f.Args[1]) && f.Args[0].S == SInt {
			extraEqs = append(extraEqs, [2]*Term{f.Args[0], f.Args[1]})
		}
	}
	defer func() { extraEqs = nil }()
	fuel := unfoldFuel
	if strings.HasPrefix(o.Kind, "loop") {
		// continuation-style invariants: the step is one unfolding of the application in the
		// invariant assumed at the loop head (a hypothesis), not of the applications in the goal
		fuel = 0
	}
	out := p.unfoldInstances([]*Term{o.Goal}, fuel, 40)
	if !p.mentionsHeavy(o.Goal, map[int]bool{}) {
		return out
	}
	if hs := p.relevantHints(o); len(hs) > 0 {
		out = append(out, p.unfoldInstances(hs, 1, 12)...)
	}
	// recent facts: walk backwards, stop after a few instances
	var recent []*Term
	for i := len(asserts) - 2; i >= 0 && len(recent) < 12; i-- {
		recent = append(recent, Implies(o.Goal.Args0(), asserts[i]))
	}
	out = append(out, p.unfoldInstances(recent, 1, 10)...)
	return out
}

// BuildQueryGround: recursive spec functions uninterpreted, with ground unfoldings of the
// applications in the goal, in the assumed loop invariants and in the recent hypotheses.
func hasQuant(t *Term, memo map[int]bool) bool {
	if v, ok := memo[t.id]; ok {
		return v
	}
	r := t.Bind != nil
	if !r {
		for _, a := range t.Args {
			if hasQuant(a, memo) {
				r = true
				break
			}
		}
	}
	memo[t.id] = r
	return r
}

func (p *Prog) BuildQueryGround(o *Obligation) (string, bool) {
	return p.buildQueryGround(o, false)
}

// buildQueryGround with qf=true additionally drops every quantified hypothesis and the quantified
// library axioms (lemmas with triggers stay): fewer hypotheses, so unsat remains sound.
func (p *Prog) buildQueryGround(o *Obligation, qf bool) (string, bool) {
	if !p.mentionsHeavy(o.Goal, map[int]bool{}) {
		return "", false
	}
	facts := p.relevantFacts(o)
	if qf {
		memo := map[int]bool{}
		var kept []*Term
		for _, f := range facts {
			if !hasQuant(f, memo) {
				kept = append(kept, f)
			}
		}
		facts = kept
	}
	asserts := append([]*Term{}, facts...)
	asserts = append(asserts, Not(o.Goal))
	extraEqs = nil
	for _, f := range asserts {
		if f.Head == "=" && len(f.Args) == 2 && !isIntLitTerm(f.Args[0]) && !isIntLitTerm(f.Args[1]) && f.Args[0].S == SInt {
			extraEqs = append(extraEqs, [2]*Term{f.Args[0], f.Args[1]})
		}
	}
	defer func() { extraEqs = nil }()
	var inst []*Term
	inst = append(inst, p.unfoldInstances([]*Term{o.Goal}, 3, 30)...)
	if hs0 := p.relevantHints(o); len(hs0) > 0 {
		var hs []*Term
		for _, h := range hs0 {
			hs = append(hs, Implies(o.Goal.Args0(), h))
		}
		inst = append(inst, p.unfoldInstances(hs, 2, 20)...)
	}
	var recent []*Term
	for i := len(facts) - 1; i >= 0 && len(recent) < 40; i-- {
		recent = append(recent, Implies(o.Goal.Args0(), facts[i]))
	}
	inst = append(inst, p.unfoldInstances(recent, 1, 20)...)
	asserts = append(asserts, inst...)
	if !o.noLemmas {
		asserts = append(asserts, p.lemmaAxiomsFor(asserts)...)
	}
	if qf {
		return p.buildScriptOpts(asserts, nil, true, true), true
	}
	return p.buildScriptMode(asserts, nil, true), true
}

// BuildQueryLight drops the hypotheses that mention the evaluation-spec family (sound: fewer
// hypotheses); only offered when the goal itself does not mention it.
func (p *Prog) BuildQueryLight(o *Obligation) (string, bool) {
	memo := map[int]bool{}
	if p.mentionsHeavy(o.Goal, memo) {
		return "", false
	}
	var asserts []*Term
	dropped := 0
	for _, f := range p.relevantFacts(o) {
		if p.mentionsHeavy(f, memo) {
			dropped++
			continue
		}
		asserts = append(asserts, f)
	}
	if dropped == 0 {
		return "", false
	}
	asserts = append(asserts, Not(o.Goal))
	if !o.noLemmas {
		asserts = append(asserts, p.lemmaAxiomsFor(asserts)...)
	}
	return p.buildScript(asserts, nil), true
}

// relevantFacts: hypotheses emitted in blocks from which the obligation's block is reachable
// (facts of sibling branches cannot matter; dropping hypotheses is sound).
// relevantHints: assumed invariants of the loops whose header can reach the obligation's block.
func (p *Prog) relevantHints(o *Obligation) []*Term {
	var out []*Term
	if len(o.hints) == 0 {
		return nil
	}
	anc := p.ancestorBlocks(o)
	for _, h := range o.hints {
		if anc == nil || h.blk < 0 || anc[h.blk] {
			out = append(out, h.t)
		}
	}
	return out
}

func (p *Prog) ancestorBlocks(o *Obligation) map[int]bool {
	if o.ex == nil || o.ex.fn == nil || o.blk < 0 || o.blk >= len(o.ex.fn.Blocks) {
		return nil
	}
	fn := o.ex.fn
	anc := map[int]bool{o.blk: true}
	stack := []int{o.blk}
	for len(stack) > 0 {
		b := fn.Blocks[stack[len(stack)-1]]
		stack = stack[:len(stack)-1]
		for _, pr := range b.Preds {
			if b.Dominates(pr) {
				continue
			}
			if !anc[pr.Index] {
				anc[pr.Index] = true
				stack = append(stack, pr.Index)
			}
		}
	}
	return anc
}

func (p *Prog) relevantFacts(o *Obligation) []*Term {
	facts := o.Facts[:o.NFacts]
	if o.ex == nil || o.ex.fn == nil || o.factBlk == nil || o.blk < 0 || len(o.factBlk) < o.NFacts {
		return facts
	}
	fn := o.ex.fn
	if o.blk >= len(fn.Blocks) {
		return facts
	}
	anc := map[int]bool{o.blk: true}
	stack := []int{o.blk}
	for len(stack) > 0 {
		b := fn.Blocks[stack[len(stack)-1]]
		stack = stack[:len(stack)-1]
		for _, pr := range b.Preds {
			if b.Dominates(pr) {
				continue // back edge
			}
			if !anc[pr.Index] {
				anc[pr.Index] = true
				stack = append(stack, pr.Index)
			}
		}
	}
	var out []*Term
	for i, f := range facts {
		if bi := o.factBlk[i]; bi < 0 || anc[bi] {
			out = append(out, f)
		}
	}
	return out
}

func (p *Prog) BuildQuery(o *Obligation, getModel []string) string {
	asserts := append([]*Term{}, p.relevantFacts(o)...)
	asserts = append(asserts, Not(o.Goal))
	asserts = append(asserts, p.unfoldFor(o, asserts)...)
	if !o.noLemmas {
		asserts = append(asserts, p.lemmaAxiomsFor(asserts)...)
	}
	return p.buildScript(asserts, getModel)
}

// unfoldInstances adds ground instances f(args) = body[args] of the defining equations of
// translated recursive spec functions for the applications occurring in the assertions
// ("fuel"-bounded). Adding true instances only strengthens the hypotheses.
// extraEqs: equalities between non-literal terms from the hypotheses, used to propagate
// path-known literal values (e.g. tokenType == tokens[i-1].tokenType).
var extraEqs [][2]*Term

func (p *Prog) unfoldInstances(asserts []*Term, fuel int, limit int) []*Term {
	// equalities t == literal that hold on the path of the goal (goal = guard => P): used to
	// simplify the unfolded bodies (e.g. the node-type dispatch of specEval collapses to one clause)
	known := map[*Term]*Term{}
	for _, g := range asserts {
		if g.Head == "=>" && len(g.Args) == 2 {
			for k, v := range knownFrom(g.Args[0], 0) {
				known[k] = v
			}
		}
	}
	for iter := 0; iter < 2; iter++ {
		for _, e := range extraEqs {
			if v, ok := known[e[0]]; ok {
				if _, ok2 := known[e[1]]; !ok2 {
					known[e[1]] = v
				}
			} else if v, ok := known[e[1]]; ok {
				known[e[0]] = v
			}
		}
	}
	var out []*Term
	done := map[int]bool{}
	frontier := asserts
	for round := 0; round < fuel && len(out) < limit; round++ {
		var apps []*Term
		collectSyms(frontier, func(t *Term) {
			if t.open || done[t.id] {
				return
			}
			sd, ok := p.specs[t.Head]
			if !ok || sd.Raw != "" || len(t.Args) != len(sd.Params) || len(t.Args) == 0 {
				return
			}
			p.ensureSpec(t.Head)
			if sd.Body == nil || !p.specIsRecursive(t.Head) {
				return
			}
			done[t.id] = true
			apps = append(apps, t)
		})
		var next []*Term
		for _, a := range apps {
			if len(out) >= limit {
				break
			}
			sd := p.specs[a.Head]
			m := map[*Term]*Term{}
			for i, f := range sd.Formals {
				m[f] = a.Args[i]
			}
			body := Subst(sd.Body, m)
			if len(known) > 0 {
				body = Subst(body, known)
			}
			inst := Eq(a, body)
			out = append(out, inst)
			next = append(next, inst)
		}
		frontier = next
		if len(next) == 0 {
			break
		}
	}
	return out
}

func (p *Prog) specIsRecursive(name string) bool {
	if p.recSpec == nil {
		p.recSpec = map[string]bool{}
	}
	if v, ok := p.recSpec[name]; ok {
		return v
	}
	// reachable from itself through Deps?
	seen := map[string]bool{}
	var reach func(n string) bool
	reach = func(n string) bool {
		sd := p.specs[n]
		if sd == nil {
			return false
		}
		p.ensureSpec(n)
		for _, d := range sd.Deps {
			if d == name {
				return true
			}
			if !seen[d] {
				seen[d] = true
				if reach(d) {
					return true
				}
			}
		}
		return false
	}
	r := reach(name)
	p.recSpec[name] = r
	return r
}

func (p *Prog) buildScript(asserts []*Term, getValues []string) string {
	return p.buildScriptMode(asserts, getValues, false)
}

func (p *Prog) buildScriptMode(asserts []*Term, getValues []string, uninterp bool) string {
	return p.buildScriptOpts(asserts, getValues, uninterp, false)
}

func (p *Prog) buildScriptOpts(asserts []*Term, getValues []string, uninterp bool, noLibAxioms bool) string {
	// reachable spec functions and constants
	specRoots := map[string]bool{}
	consts := map[string]*Sort{}
	ufs := map[string]bool{}
	usedLits := map[string]bool{}
	scan := func(ts []*Term) {
		collectSyms(ts, func(t *Term) {
			if sd, ok := p.specs[t.Head]; ok && len(t.Args) == len(sd.Params) {
				specRoots[t.Head] = true
			}
			if len(t.Args) == 0 {
				if s, ok := p.consts[t.Head]; ok {
					consts[t.Head] = s
				}
				if t.S == SStr {
					usedLits[t.Head] = true
				}
			}
			if _, ok := p.ufuns[t.Head]; ok {
				ufs[t.Head] = true
			}
			if strings.HasPrefix(t.Head, "appendAll_") || t.Head == "gs.sub" || t.Head == "gs.at" {
				ufs[t.Head] = true
			}
		})
	}
	scan(asserts)
	specText, _ := p.specDefsFor(specRoots, uninterp)
	// spec bodies may mention further constants (string literals are in the prelude) and ufuns
	var bodies []*Term
	for n := range specRoots {
		_ = n
	}
	for _, sd := range p.specs {
		if sd.done && sd.Body != nil && strings.Contains(specText, " "+sd.Name+" ") || sd.done && sd.Body != nil && strings.Contains(specText, "("+sd.Name+" ") {
			bodies = append(bodies, sd.Body)
		}
	}
	collectSyms(bodies, func(t *Term) {
		if len(t.Args) == 0 && t.S == SStr {
			usedLits[t.Head] = true
		}
		if _, ok := p.ufuns[t.Head]; ok {
			ufs[t.Head] = true
		}
		if strings.HasPrefix(t.Head, "appendAll_") || t.Head == "gs.sub" || t.Head == "gs.at" {
			ufs[t.Head] = true
		}
	})
	for id := range p.sortAxioms {
		if ufs["sorted_"+id] {
			ufs["sortPerm_"+id] = true
		}
	}
	for id := range p.permAxioms {
		if ufs["permuted_"+id] {
			ufs["sortPerm_"+id] = true
		}
	}
	// body first (what is used decides which declarations are emitted)
	var body strings.Builder
	for _, n := range p.ufunOrder {
		if ufs[n] {
			body.WriteString(p.ufuns[n])
			body.WriteByte('\n')
		}
	}
	if !noLibAxioms {
		body.WriteString(p.axiomText(ufs))
	}
	body.WriteString(specText)
	if !noLibAxioms && ufs["jsonDecode"] && ufs["jsonOK"] && strings.Contains(specText, "specJSONVal") {
		for _, sl := range p.w.slices {
			if sl.Elem == SBV8 {
				fmt.Fprintf(&body, "(assert (forall ((d %s)) (! (=> (jsonOK d) (specJSONVal (jsonDecode d))) :pattern ((jsonDecode d)))))\n", sl.Name)
			}
		}
	}
	var cn []string
	for n := range consts {
		cn = append(cn, n)
	}
	sort.Strings(cn)
	for _, n := range cn {
		fmt.Fprintf(&body, "(declare-const %s %s)\n", smtSym(n), consts[n].S)
	}
	PrintAsserts(&body, asserts, "d!")
	var sb strings.Builder
	sb.WriteString("(set-option :produce-models true)\n(set-logic ALL)\n")
	sb.WriteString(p.w.Prelude(fixedDefs+body.String(), usedLits))
	sb.WriteString(fixedDefs)
	sb.WriteString(body.String())
	sb.WriteString("(check-sat)\n")
	if len(getValues) > 0 {
		sb.WriteString("(get-value (" + strings.Join(getValues, " ") + "))\n")
	}
	return sb.String()
}

func smtSym(n string) string {
	if strings.ContainsAny(n, "@!$") || true {
		// names contain characters legal in simple symbols except for a few; quote when needed
		for _, c := range n {
			if !(c == '_' || c == '!' || c == '@' || c == '$' || c == '.' || (c >= '0' && c <= '9') || (c >= 'a' && c <= 'z') || (c >= 'A' && c <= 'Z')) {
				return "|" + n + "|"
			}
		}
	}
	return n
}

// axiomText: quantified axioms for uninterpreted helpers that are in use.
func (p *Prog) axiomText(ufs map[string]bool) string {
	var sb strings.Builder
	for name := range p.needAppendAxiom {
		if !ufs["appendAll_"+name] {
			continue
		}
		si := (*SliceInfo)(nil)
		for _, s := range p.w.slices {
			if s.Name == name {
				si = s
			}
		}
		if si == nil {
			continue
		}
		n := si.Name
		fmt.Fprintf(&sb, "(assert (forall ((a %s) (b %s)) (! (= (len_%s (appendAll_%s a b)) (+ (len_%s a) (len_%s b))) :pattern ((appendAll_%s a b)))))\n", n, n, n, n, n, n, n)
		fmt.Fprintf(&sb, "(assert (forall ((a %s) (b %s) (j Int)) (! (= (select (arr_%s (appendAll_%s a b)) j) (ite (< j (len_%s a)) (select (arr_%s a) j) (select (arr_%s b) (- j (len_%s a))))) :pattern ((select (arr_%s (appendAll_%s a b)) j)))))\n",
			n, n, n, n, n, n, n, n, n, n)
	}
	for id, es := range p.sortAxioms {
		fn, pf := "sorted_"+id, "sortPerm_"+id
		if !ufs[fn] {
			continue
		}
		as := "(Array Int " + es.S + ")"
		// the result is a permutation of the input (every output slot comes from an input slot) ...
		fmt.Fprintf(&sb, "(assert (forall ((a %s) (n Int) (j Int)) (! (=> (and (<= 0 j) (< j n)) (and (<= 0 (%s a n j)) (< (%s a n j) n) (= (select (%s a n) j) (select a (%s a n j))))) :pattern ((select (%s a n) j)))))\n", as, pf, pf, fn, pf, fn)
		// ... in ascending order
		lt := ""
		switch es {
		case SF64:
			lt = "(or (f64.lt (select (%[2]s a n) j) (select (%[2]s a n) i)) (and (fp.isNaN (select (%[2]s a n) j)) (not (fp.isNaN (select (%[2]s a n) i)))))"
		case SStr:
			lt = "(gs.lt (select (%[2]s a n) j) (select (%[2]s a n) i))"
		}
		if lt != "" {
			fmt.Fprintf(&sb, "(assert (forall ((a %s) (n Int) (i Int) (j Int)) (! (=> (and (<= 0 i) (< i j) (< j n)) (not "+lt+")) :pattern ((select (%[2]s a n) i) (select (%[2]s a n) j)))))\n", as, fn)
		}
		// ... no input slot is used twice (so it is a permutation) ...
		fmt.Fprintf(&sb, "(assert (forall ((a %s) (n Int) (i Int) (j Int)) (! (=> (and (<= 0 i) (< i j) (< j n)) (not (= (%s a n i) (%s a n j)))) :pattern ((%s a n i) (%s a n j)))))\n", as, pf, pf, pf, pf)
	}
	if ufs["gs.sub"] && ufs["gs.at"] {
		// bytes of a substring
		sb.WriteString("(assert (forall ((s Str) (lo Int) (hi Int) (k Int)) (! (=> (and (<= 0 lo) (<= 0 k) (< (+ lo k) hi) (<= hi (gs.len s))) (= (gs.at (gs.sub s lo hi) k) (gs.at s (+ lo k)))) :pattern ((gs.at (gs.sub s lo hi) k)))))\n")
	}
	if ufs["atoiVal"] {
		sb.WriteString("(assert (forall ((s Str)) (! (and (<= (- 9223372036854775808) (atoiVal s)) (<= (atoiVal s) 9223372036854775807)) :pattern ((atoiVal s)))))\n")
	}
	for id, es := range p.copyAxioms {
		cf := "copied_" + id
		if !ufs[cf] {
			continue
		}
		as := "(Array Int " + es.S + ")"
		fmt.Fprintf(&sb, "(assert (forall ((d %s) (s %s) (n Int) (j Int)) (! (= (select (%s d s n) j) (ite (and (<= 0 j) (< j n)) (select s j) (select d j))) :pattern ((select (%s d s n) j)))))\n", as, as, cf, cf)
	}
	for id, es := range p.permAxioms {
		fn, pf := "permuted_"+id, "sortPerm_"+id
		if !ufs[fn] {
			continue
		}
		as := "(Array Int " + es.S + ")"
		fmt.Fprintf(&sb, "(assert (forall ((a %s) (n Int) (j Int)) (! (=> (and (<= 0 j) (< j n)) (and (<= 0 (%s a n j)) (< (%s a n j) n) (= (select (%s a n) j) (select a (%s a n j))))) :pattern ((select (%s a n) j)))))\n", as, pf, pf, fn, pf, fn)
		if _, dup := p.sortAxioms[id]; !dup || !ufs["sorted_"+id] {
			fmt.Fprintf(&sb, "(assert (forall ((a %s) (n Int) (i Int) (j Int)) (! (=> (and (<= 0 i) (< i j) (< j n)) (not (= (%s a n i) (%s a n j)))) :pattern ((%s a n i) (%s a n j)))))\n", as, pf, pf, pf, pf)
		}
	}
	for _, s := range p.w.slices {
		sh := "shift_" + sortIdent(s.Elem)
		if ufs[sh] {
			fmt.Fprintf(&sb, "(assert (forall ((a (Array Int %s)) (k Int) (j Int)) (! (= (select (%s a k) j) (select a (+ k j))) :pattern ((select (%s a k) j)))))\n", s.Elem.S, sh, sh)
		}
	}
	return sb.String()
}

type solverSpec struct {
	name string
	cmd  []string
}

var solvers = []solverSpec{
	{"z3-new", []string{"z3-new", "-smt2"}},
	{"z3-new-ematch", []string{"z3-new", "-smt2", "smt.auto_config=false", "smt.mbqi=false"}},
	{"z3", []string{"z3", "-smt2"}},
	{"cvc5", []string{"cvc5", "--lang=smt2", "--dt-nested-rec", "--fp-exp"}},
	// e-matching is sensitive to term order; differently seeded runs are independent attempts
	{"z3-new-ematch-s2", []string{"z3-new", "-smt2", "smt.auto_config=false", "smt.mbqi=false", "smt.random_seed=2"}},
	{"z3-new-ematch-s3", []string{"z3-new", "-smt2", "smt.auto_config=false", "smt.mbqi=false", "smt.random_seed=3"}},
}

type solveResult struct {
	verdict string // unsat, sat, unknown, timeout, error
	solver  string
	secs    float64
	output  string
	all     map[string]string
}

// runPortfolio runs all solvers on the query in parallel; first definitive answer wins.
func runPortfolio(query string, timeout time.Duration, dir string, tag string, waitAll bool) solveResult {
	return runPortfolioWith(solvers, query, timeout, dir, tag, waitAll)
}

// the configurations that win most often; used for the first (sliced) attempt
var fastSolvers = []solverSpec{solvers[0], solvers[1], solvers[3], solvers[4], solvers[5]}

// the scout runs the unweakened query next to the staged attempts
var scoutSolvers = []solverSpec{solvers[0], solvers[1], solvers[3]}

func runPortfolioWith(solvers []solverSpec, query string, timeout time.Duration, dir string, tag string, waitAll bool) solveResult {
	return runPortfolioCtx(context.Background(), solvers, query, timeout, dir, tag, waitAll)
}

func runPortfolioCtx(parent context.Context, solvers []solverSpec, query string, timeout time.Duration, dir string, tag string, waitAll bool) solveResult {
	f := filepath.Join(dir, tag+".smt2")
	os.WriteFile(f, []byte(query), 0o644)
	ctx, cancel := context.WithTimeout(parent, timeout)
	defer cancel()
	type one struct {
		name, verdict, out string
		secs               float64
	}
	ch := make(chan one, len(solvers))
	var wg sync.WaitGroup
	for _, s := range solvers {
		wg.Add(1)
		go func(s solverSpec) {
			defer wg.Done()
			start := time.Now()
			args := append([]string{}, s.cmd[1:]...)
			args = append(args, f)
			cmd := exec.CommandContext(ctx, s.cmd[0], args...)
			var out bytes.Buffer
			cmd.Stdout = &out
			cmd.Stderr = &out
			cmd.Run()
			text := out.String()
			v := "error"
			for _, ln := range strings.Split(text, "\n") {
				ln = strings.TrimSpace(ln)
				if ln == "" || strings.HasPrefix(ln, "WARNING") {
					continue
				}
				if ln == "unsat" || ln == "sat" || ln == "unknown" {
					v = ln
				}
				break
			}
			if v == "error" && ctx.Err() != nil {
				v = "timeout"
			}
			ch <- one{s.name, v, text, time.Since(start).Seconds()}
		}(s)
	}
	go func() { wg.Wait(); close(ch) }()
	res := solveResult{verdict: "unknown", all: map[string]string{}}
	var errOut string
	for r := range ch {
		res.all[r.name] = r.verdict
		if r.verdict == "error" && errOut == "" {
			errOut = r.name + ": " + r.out
		}
		if (r.verdict == "unsat" || r.verdict == "sat") && res.solver == "" {
			res.verdict, res.solver, res.secs, res.output = r.verdict, r.name, r.secs, r.out
			// a refutation is cross-checked: keep the other solvers running
			if !waitAll && r.verdict == "unsat" {
				cancel()
			}
		} else if (r.verdict == "unsat" || r.verdict == "sat") && r.verdict != res.verdict {
			res.verdict = "disagree"
			res.output += "\n--- " + r.name + " answers " + r.verdict + "\n" + r.out
		}
	}
	if res.solver == "" {
		to := 0
		for _, v := range res.all {
			if v == "timeout" {
				to++
			}
		}
		if to == len(res.all) {
			res.verdict = "timeout"
		}
		if errOut != "" {
			res.output = errOut
			allErr := true
			for _, v := range res.all {
				if v != "error" {
					allErr = false
				}
			}
			if allErr {
				res.verdict = "error"
			}
		}
		res.secs = timeout.Seconds()
	}
	return res
}

// dischargeAll runs every obligation through the portfolio with bounded parallelism.
func (p *Prog) dischargeAll(obls []*Obligation, timeout time.Duration, dir string, par int) {
	sem := make(chan struct{}, par)
	var wg sync.WaitGroup
	var mu sync.Mutex
	queries := make([]string, len(obls))
	light := make([]string, len(obls))
	coi := make([]string, len(obls))
	ground := make([]string, len(obls))
	groundqf := make([]string, len(obls))
	for i, o := range obls {
		if o.Verdict == "" {
			if q, ok := p.BuildQueryGround(o); ok {
				ground[i] = q
			}
			if q, ok := p.buildQueryGround(o, true); ok {
				groundqf[i] = q
			}
			queries[i] = p.BuildQuery(o, nil)
			if q, ok := p.BuildQueryLight(o); ok {
				light[i] = q
			}
			if q, ok := p.BuildQueryCOI(o); ok {
				coi[i] = q
			}
		}
	}
	for i, o := range obls {
		if o.Verdict != "" {
			continue
		}
		wg.Add(1)
		sem <- struct{}{}
		go func(i int, o *Obligation) {
			defer wg.Done()
			defer func() { <-sem }()
			tag := fmt.Sprintf("q%04d", i)
			// a scout: the full query on two solvers, raced against the staged weakenings below, so that an
			// obligation that needs every hypothesis does not wait for the earlier stages to time out
			stageCtx, stopStages := context.WithCancel(context.Background())
			defer stopStages()
			scout := make(chan solveResult, 1)
			go func() {
				r := runPortfolioCtx(stageCtx, scoutSolvers, queries[i], timeout, dir, tag+"s", false)
				if r.verdict == "unsat" {
					scout <- r
					stopStages()
				}
				close(scout)
			}()
			scouted := func() bool {
				select {
				case r, ok := <-scout:
					if ok && r.verdict == "unsat" {
						mu.Lock()
						o.Verdict, o.Solver, o.Secs, o.Output = r.verdict, r.solver+"(scout)", r.secs, r.output
						mu.Unlock()
						return true
					}
				default:
				}
				return false
			}
			runStage := func(q string, to time.Duration, t string) solveResult {
				return runPortfolioCtx(stageCtx, fastSolvers, q, to, dir, t, false)
			}
			if groundqf[i] != "" {
				rq := runStage(groundqf[i], timeout/2, tag+"q")
				if rq.verdict == "unsat" {
					mu.Lock()
					o.Verdict, o.Solver, o.Secs, o.Output = rq.verdict, rq.solver+"(ground-qf)", rq.secs, rq.output
					mu.Unlock()
					return
				}
			}
			if ground[i] != "" {
				if scouted() {
					return
				}
				rg := runStage(ground[i], timeout, tag+"g")
				if rg.verdict == "unsat" {
					mu.Lock()
					o.Verdict, o.Solver, o.Secs, o.Output = rg.verdict, rg.solver+"(ground)", rg.secs, rg.output
					mu.Unlock()
					return
				}
			}
			if coi[i] != "" {
				// first only the hypotheses in the goal's cone of influence
				if scouted() {
					return
				}
				rc := runStage(coi[i], timeout, tag+"c")
				if rc.verdict == "unsat" {
					mu.Lock()
					o.Verdict, o.Solver, o.Secs, o.Output = rc.verdict, rc.solver+"(coi)", rc.secs, rc.output
					mu.Unlock()
					return
				}
			}
			if light[i] != "" && coi[i] == "" {
				// first without the evaluation-spec hypotheses: unsat there is unsat with them
				if scouted() {
					return
				}
				rl := runStage(light[i], timeout, tag+"l")
				if rl.verdict == "unsat" {
					mu.Lock()
					o.Verdict, o.Solver, o.Secs, o.Output = rl.verdict, rl.solver+"(sliced)", rl.secs, rl.output
					mu.Unlock()
					return
				}
			}
			if scouted() {
				return
			}
			stopStages()
			r := runPortfolio(queries[i], timeout, dir, tag, false)
			if (r.verdict == "unknown" || r.verdict == "timeout") && !o.noLemmas {
				// the lemmas are consequences of the definitions already in the query; they help proofs but
				// their quantifiers keep the solvers from reporting a counter-model, so a failing obligation
				// is asked once more without them (either answer is sound for the query with them)
				o.noLemmas = true
				qn := p.BuildQuery(o, nil)
				o.noLemmas = false
				rn := runPortfolio(qn, timeout, dir, tag+"n", false)
				if rn.verdict == "sat" || rn.verdict == "unsat" {
					r = rn
				}
			}
			if r.verdict == "unknown" || r.verdict == "timeout" {
				// one retry with a longer budget
				r2 := runPortfolio(queries[i], 3*timeout, dir, tag, false)
				if r2.verdict == "unsat" || r2.verdict == "sat" {
					r = r2
				}
			}
			mu.Lock()
			o.Verdict, o.Solver, o.Secs, o.Output = r.verdict, r.solver, r.secs, r.output
			mu.Unlock()
		}(i, o)
	}
	wg.Wait()
}

var unfoldFuel = func() int {
	if v := os.Getenv("GOVC_FUEL"); v != "" {
		n := 0
		fmt.Sscanf(v, "%d", &n)
		return n
	}
	return 2
}()

// knownFrom: equalities t == literal implied by a guard (conjunctions: union; disjunctions: intersection).
func knownFrom(t *Term, depth int) map[*Term]*Term {
	out := map[*Term]*Term{}
	if depth > 40 {
		return out
	}
	switch {
	case t.Head == "and" && t.Bind == nil:
		for _, a := range t.Args {
			for k, v := range knownFrom(a, depth+1) {
				out[k] = v
			}
		}
	case t.Head == "or" && t.Bind == nil && len(t.Args) > 0:
		first := knownFrom(t.Args[0], depth+1)
		for _, a := range t.Args[1:] {
			m := knownFrom(a, depth+1)
			for k, v := range first {
				if m[k] != v {
					delete(first, k)
				}
			}
		}
		return first
	case t.Head == "=" && len(t.Args) == 2:
		if isIntLitTerm(t.Args[1]) && !isIntLitTerm(t.Args[0]) {
			out[t.Args[0]] = t.Args[1]
		} else if isIntLitTerm(t.Args[0]) && !isIntLitTerm(t.Args[1]) {
			out[t.Args[1]] = t.Args[0]
		}
	}
	return out
}
