package main

// Loop cutting: invariants, variants, havoc.

import (
	"fmt"
	"go/token"
	"go/types"
	"strings"

	"golang.org/x/tools/go/ssa"
)

// writtenInLoop computes cells and heap keys possibly written inside the loop body.
func (fr *Frame) writtenInLoop(li *loopInfo) (cells map[*Cell]bool, heap map[string]bool, all bool) {
	cells = map[*Cell]bool{}
	heap = map[string]bool{}
	seenFn := map[*ssa.Function]bool{}
	var scanFn func(fn *ssa.Function, top bool, blocks func(b *ssa.BasicBlock) bool)
	var rootOf func(v ssa.Value, top bool) (cell *Cell, hkey string, ok bool)
	rootOf = func(v ssa.Value, top bool) (*Cell, string, bool) {
		field := ""
		for {
			switch x := v.(type) {
			case *ssa.FieldAddr:
				st := x.X.Type().Underlying().(*types.Pointer).Elem()
				if n, ok := st.(*types.Named); ok {
					field = n.Obj().Name() + "." + st.Underlying().(*types.Struct).Field(x.Field).Name()
				} else {
					field = ""
				}
				v = x.X
				continue
			case *ssa.IndexAddr:
				v = x.X
				field = ""
				continue
			case *ssa.Slice:
				v = x.X
				continue
			case *ssa.ChangeType:
				v = x.X
				continue
			case *ssa.Alloc, *ssa.MakeSlice, *ssa.MakeMap, *ssa.Convert:
				if !top {
					return nil, "", true // local to an inlined callee: allocated inside the loop
				}
				if g, ok := fr.vals[x]; ok {
					if g.Ptr != nil && g.Ptr.Cell != nil {
						if g.Ptr.Cell.pub != nil && field != "" {
							return nil, field, true
						}
						return g.Ptr.Cell, "", true
					}
					if g.Reg != nil {
						return g.Reg, "", true
					}
					if g.Origin != nil && g.Origin.Cell != nil {
						return g.Origin.Cell, "", true
					}
				}
				return nil, "", true // allocated inside the loop: fresh each iteration
			case *ssa.Parameter, *ssa.UnOp, *ssa.Phi, *ssa.Call, *ssa.Extract, *ssa.TypeAssert:
				if field != "" {
					return nil, field, true
				}
				// element write through a loaded slice (e.g. a.items[i])
				if u, ok := x.(*ssa.UnOp); ok {
					return rootOf(u.X, top)
				}
				return nil, "", false
			case *ssa.Global:
				return nil, "", true
			default:
				return nil, "", false
			}
		}
	}
	scanFn = func(fn *ssa.Function, top bool, inBody func(b *ssa.BasicBlock) bool) {
		for _, b := range fn.Blocks {
			if !inBody(b) {
				continue
			}
			for _, in := range b.Instrs {
				switch in := in.(type) {
				case *ssa.Store:
					c, k, ok := rootOf(in.Addr, top)
					if !ok {
						all = true
					}
					if c != nil {
						cells[c] = true
					}
					if k != "" {
						heap[k] = true
					}
				case *ssa.MapUpdate:
					c, k, ok := rootOf(in.Map, top)
					if !ok {
						all = true
					}
					if c != nil {
						cells[c] = true
					}
					if k != "" {
						heap[k] = true
					}
				case *ssa.Next:
					if top {
						if g, ok := fr.vals[in.Iter]; ok && g.Iter != nil {
							cells[g.Iter] = true
						}
					}
				case *ssa.Call:
					callee := in.Call.StaticCallee()
					if callee == nil {
						// dynamic or interface call: handlers assign nothing visible (checked by their contracts)
						continue
					}
					name := funcDisplayName(callee)
					if c := fr.ex.p.contractFor(fr.ex.fname, name); c != nil && !c.Inline {
						for _, a := range c.Assigns {
							heap[strings.TrimSuffix(a, "[*]")] = true
						}
						continue
					}
					if callee.Pkg == fr.ex.p.pkg || callee.Pkg == fr.ex.p.mainPkg {
						if fr.ex.p.isSpecFunc(callee) {
							continue
						}
						if !seenFn[callee] {
							seenFn[callee] = true
							scanFn(callee, false, func(*ssa.BasicBlock) bool { return true })
						}
						continue
					}
					// stdlib with pointer arguments: writes through them
					for _, a := range in.Call.Args {
						if _, ok := a.Type().Underlying().(*types.Pointer); ok {
							c, k, ok := rootOf(a, top)
							if !ok {
								all = true
							}
							if c != nil {
								cells[c] = true
							}
							if k != "" {
								heap[k] = true
							}
						}
					}
				}
			}
		}
	}
	scanFn(fr.fn, true, func(b *ssa.BasicBlock) bool { return li.body[b] })
	return
}

func (fr *Frame) enterLoop(li *loopInfo, preds []*ssa.BasicBlock) {
	ex := fr.ex
	h := li.head
	if ex.pure {
		ex.unsupp("loop in spec function %s", fr.fn.Name())
	}
	if !fr.top {
		ex.unsupp("loop in inlined function %s (needs a contract)", fr.fn.Name())
	}
	if ex.c != nil {
		li.spec = ex.c.Loops[li.ordinal]
	}
	// incoming phi values (merged over forward edges)
	incoming := map[*ssa.Phi]*GVal{}
	for _, phi := range li.phis {
		incoming[phi] = fr.mergePhi(phi, preds)
	}
	// written locations (also needed to resolve \k of map iterators)
	wcells0, wheap0, all0 := fr.writtenInLoop(li)
	li.wcells, li.wheap = wcells0, wheap0
	// established
	envIn := fr.loopEnv(li, incoming, nil)
	li.entrySt, li.entryVars = ex.st.clone(), envIn.vars
	if li.spec != nil {
		for i, cl := range li.spec.Invariants {
			fr.oblige(fmt.Sprintf("loop%d", li.ordinal), "established/"+clauseLabel(cl, i), cl.Props, fr.evalBool(cl.Expr, envIn), h.Instrs[0].Pos())
		}
	}
	// automatic invariants: range index bounds, and "no error swallowed so far"
	li.rangeBound = nil
	for _, phi := range li.phis {
		if phi.Comment != "rangeindex" {
			continue
		}
		if iff, ok := h.Instrs[len(h.Instrs)-1].(*ssa.If); ok {
			if cmp, ok := iff.Cond.(*ssa.BinOp); ok && cmp.Op == token.LSS {
				if add, ok := cmp.X.(*ssa.BinOp); ok && add.Op == token.ADD && add.X == ssa.Value(phi) {
					if in, isInstr := cmp.Y.(ssa.Instruction); !isInstr || !li.body[in.Block()] {
						li.rangeBound = fr.term(fr.val(cmp.Y))
						li.rangePhi = phi
						inc := fr.term(incoming[phi])
						fr.oblige(fmt.Sprintf("loop%d", li.ordinal), "established/auto-range-index", []string{"C05"}, And(Le(IntLit(-1), inc), Lt(inc, li.rangeBound)), h.Instrs[0].Pos())
					}
				}
			}
		}
	}
	li.tracksErr = fr.loopCallsTracked(li)
	if li.tracksErr && !ex.pure {
		es := ex.st.ghost["errSeen"]
		if es == nil {
			es = TFalse
		}
		fr.oblige(fmt.Sprintf("loop%d", li.ordinal), "established/auto-no-error-swallowed-so-far", []string{"C11"}, Not(es), h.Instrs[0].Pos())
	}
	// havoc
	wcells, wheap, all := wcells0, wheap0, all0
	if all {
		ex.unsupp("loop %d of %s: cannot bound the set of written locations", li.ordinal, fr.fn.Name())
		for c := range ex.st.cells {
			wcells[c] = true
		}
	}
	li.wcells, li.wheap = wcells, wheap
	for c := range wcells {
		if _, live := ex.st.cells[c]; live {
			ex.st.cells[c] = ex.p.FreshConst("loop"+fmt.Sprint(li.ordinal)+"_"+c.name, c.sort)
			if c.sort == SInt {
				ex.addFact(ex.typeFacts(ex.st.cells[c], c.typ))
			}
		}
	}
	for k := range wheap {
		parts := strings.SplitN(k, ".", 2)
		fs := ex.heapFieldSort(parts[0], parts[1])
		ex.heapGet(ex.st, k, fs)
		ex.st.heap[k] = ex.p.FreshConst("loop"+fmt.Sprint(li.ordinal)+"_H_"+k, SArray(SInt, fs))
	}
	if li.tracksErr {
		// the automatic invariant: no error has been swallowed when the loop head is reached
		ex.st.ghost["errSeen"] = TFalse
	}
	li.optimisticFresh = map[*ssa.Phi]bool{}
	cur := map[*ssa.Phi]*GVal{}
	for _, phi := range li.phis {
		name := phi.Comment
		if name == "" {
			name = phi.Name()
		}
		s := ex.p.w.SortOf(phi.Type())
		c := ex.p.FreshConst(fr.fn.Name()+"_"+name, s)
		g := &GVal{T: c, Typ: phi.Type()}
		if inc := incoming[phi]; inc != nil && inc.Fresh == TTrue {
			g.Fresh = TTrue
			li.optimisticFresh[phi] = true
		}
		ex.addFact(ex.typeFacts(c, phi.Type()))
		fr.vals[phi] = g
		cur[phi] = g
		if inc := incoming[phi]; inc != nil && inc.T != nil && inc.T.S == s && inc.Len == nil {
			ex.firstIter = append(ex.firstIter, Eq(c, inc.T))
		}
	}
	// assume invariants
	env := fr.loopEnv(li, cur, nil)
	if li.spec != nil {
		for _, cl := range li.spec.Invariants {
			inv := fr.evalBool(cl.Expr, env)
			ex.addFact(Implies(fr.cur, inv))
			if len(cl.Props) > 0 {
				ex.hints = append(append([]hintT{}, ex.hints...), hintT{Implies(fr.cur, inv), ex.curBlk})
			}
		}
		for _, cl := range li.spec.Decreases {
			li.variantAtHead = append(li.variantAtHead, fr.evalTerm(cl.Expr, env))
		}
	}
	// automatic range-loop invariant (established above, preserved at the back edges)
	if li.rangeBound != nil {
		ex.addFact(Implies(fr.cur, And(Le(IntLit(-1), cur[li.rangePhi].T), Lt(cur[li.rangePhi].T, li.rangeBound))))
	}
	for c := range wcells {
		if c.site != nil {
			if _, ok := c.site.(*ssa.Range); ok {
				if t, live := ex.st.cells[c]; live {
					ex.addFact(Le(IntLit(0), t))
				}
			}
		}
	}
}

func clauseLabel(cl *Clause, i int) string {
	if cl.Label != "" {
		return cl.Label
	}
	return fmt.Sprintf("inv%d", i+1)
}

// loopEnv builds the contract environment for a loop: params, named phis, \k.
func (fr *Frame) loopEnv(li *loopInfo, phiVals map[*ssa.Phi]*GVal, st *State) *Env {
	ex := fr.ex
	if st == nil {
		st = ex.st
	}
	env := &Env{fr: fr, vars: map[string]*GVal{}, st: st, old: ex.entry, oldVars: ex.entryParams}
	for k, v := range ex.entryParams {
		env.vars[k] = v
	}
	for _, phi := range li.phis {
		g := phiVals[phi]
		if g == nil {
			continue
		}
		if phi.Comment != "" && phi.Comment != "rangeindex" {
			env.vars[phi.Comment] = g
		}
		if phi.Comment == "rangeindex" {
			env.vars[`\k`] = &GVal{T: Add(fr.term(g), IntLit(1)), Typ: types.Typ[types.Int]}
		}
	}
	// map iterators
	for c := range li.wcells {
		if c.site != nil {
			if _, ok := c.site.(*ssa.Range); ok {
				if t, live := st.cells[c]; live {
					env.vars[`\k`] = &GVal{T: t, Typ: types.Typ[types.Int]}
				}
			}
		}
	}
	env.dbgHead = li.head
	return env
}

func (fr *Frame) checkBackEdges(b *ssa.BasicBlock) {
	ex := fr.ex
	for _, s := range b.Succs {
		if !s.Dominates(b) {
			continue
		}
		li := fr.loops[s]
		if li == nil {
			continue
		}
		// index of b among s.Preds
		idx := -1
		for i, p := range s.Preds {
			if p == b {
				idx = i
			}
		}
		saved := fr.cur
		fr.cur = fr.edgeCond(b, s)
		back := map[*ssa.Phi]*GVal{}
		for _, phi := range li.phis {
			back[phi] = fr.val(phi.Edges[idx])
			if li.optimisticFresh[phi] && back[phi].Fresh != TTrue {
				f := back[phi].Fresh
				if f == nil {
					f = TFalse
				}
				fr.oblige(fmt.Sprintf("loop%d", li.ordinal), "frame/loop-carried-container-stays-fresh("+phi.Comment+")", []string{"C06", "C12", "C13"}, f, phi.Pos())
			}
		}
		// \k for map iterators needs the current state
		env := fr.loopEnv(li, back, ex.st)
		pos := b.Instrs[len(b.Instrs)-1].Pos()
		if !pos.IsValid() {
			pos = s.Instrs[0].Pos()
		}
		if li.rangeBound != nil {
			bt := fr.term(back[li.rangePhi])
			fr.oblige(fmt.Sprintf("loop%d", li.ordinal), "preserved/auto-range-index", []string{"C05"}, And(Le(IntLit(-1), bt), Lt(bt, li.rangeBound)), pos)
		}
		if li.tracksErr && !ex.pure {
			es := ex.st.ghost["errSeen"]
			if es == nil {
				es = TFalse
			}
			fr.oblige(fmt.Sprintf("loop%d", li.ordinal), "preserved/auto-no-error-swallowed-so-far", []string{"C11"}, Not(es), pos)
		}
		if li.spec != nil {
			// a latch block reached along several edges: one obligation per edge for tagged clauses
			var fpreds []*ssa.BasicBlock
			for _, pb := range b.Preds {
				if _, ok := fr.reach[pb]; ok && !b.Dominates(pb) {
					fpreds = append(fpreds, pb)
				}
			}
			for i, cl := range li.spec.Invariants {
				goal := fr.evalBool(cl.Expr, env)
				if len(fpreds) >= 2 && len(fpreds) <= 4 && len(cl.Props) > 0 && fr.loops[b] == nil {
					base := fr.cur
					for k, pb := range fpreds {
						fr.cur = And(base, fr.edgeCond(pb, b))
						fr.oblige(fmt.Sprintf("loop%d", li.ordinal), fmt.Sprintf("preserved/%s/via%d", clauseLabel(cl, i), k+1), cl.Props, goal, pos)
					}
					fr.cur = base
					ex.addFact(Implies(fr.cur, goal))
					continue
				}
				fr.oblige(fmt.Sprintf("loop%d", li.ordinal), "preserved/"+clauseLabel(cl, i), cl.Props, goal, pos)
			}
		}
		if li.spec == nil || len(li.spec.Decreases) == 0 {
			if !ex.pure {
				fr.oblige(fmt.Sprintf("loop%d", li.ordinal), "variant/missing-decreases", []string{"C05"}, TFalse, pos)
			}
		} else {
			var now []*Term
			for _, cl := range li.spec.Decreases {
				now = append(now, fr.evalTerm(cl.Expr, env))
			}
			fr.oblige(fmt.Sprintf("loop%d", li.ordinal), "variant/decreases", []string{"C05"}, lexLess(now, li.variantAtHead), pos)
		}
		fr.cur = saved
	}
}

// lexLess: now < old lexicographically over non-negative integers (old components >= 0).
func lexLess(now, old []*Term) *Term {
	if len(now) == 0 {
		return TFalse
	}
	strict := And(Le(IntLit(0), old[0]), Lt(now[0], old[0]))
	if len(now) == 1 {
		return strict
	}
	return Or(strict, And(Eq(now[0], old[0]), lexLess(now[1:], old[1:])))
}

// loopCallsTracked: does the loop body contain a call whose error result is tracked by G-ERR?
func (fr *Frame) loopCallsTracked(li *loopInfo) bool {
	for b := range li.body {
		for _, in := range b.Instrs {
			if c, ok := in.(*ssa.Call); ok {
				callee := c.Call.StaticCallee()
				if callee == nil {
					if _, isB := c.Call.Value.(*ssa.Builtin); !isB && !c.Call.IsInvoke() {
						return true
					}
					continue
				}
				if errTracked[funcDisplayName(callee)] {
					return true
				}
			}
		}
	}
	return false
}
