package main

// Calls: builtins, contract calls (modular), inlining, spec functions, stdlib contracts.

import (
	"fmt"
	"go/token"
	"go/types"
	"strings"

	"golang.org/x/tools/go/ssa"
)

func (fr *Frame) call(in *ssa.Call) *GVal {
	ex := fr.ex
	cc := in.Common()
	rt := in.Type()
	if cc.IsInvoke() {
		return fr.invoke(in)
	}
	if b, ok := cc.Value.(*ssa.Builtin); ok {
		return fr.builtin(in, b)
	}
	callee := cc.StaticCallee()
	if callee == nil {
		return fr.dynamicCall(in)
	}
	var args []*GVal
	for _, a := range cc.Args {
		args = append(args, fr.val(a))
	}
	name := funcDisplayName(callee)
	if callee.Pkg == ex.p.pkg || callee.Pkg == ex.p.mainPkg {
		if ex.p.isSpecFunc(callee) {
			return fr.specCall(callee, args, rt)
		}
		c := ex.p.contractFor(ex.fname, name)
		if c != nil && !c.Inline {
			return fr.contractCall(in, callee, c, args)
		}
		if ex.pure {
			ex.unsupp("spec function calls implementation function %s", name)
			return fr.havocResult(rt, name)
		}
		return fr.inlineCall(in, callee, args)
	}
	if callee.Name() == "init" && len(args) == 0 {
		return &GVal{Typ: rt} // initialiser of an imported package
	}
	return fr.stdlibDispatch(in, callee, args)
}

func (fr *Frame) havocResult(rt types.Type, base string) *GVal {
	ex := fr.ex
	w := ex.p.w
	if tup, ok := rt.(*types.Tuple); ok {
		if tup.Len() == 0 {
			return &GVal{Typ: rt}
		}
		g := &GVal{Typ: rt}
		for i := 0; i < tup.Len(); i++ {
			t := tup.At(i).Type()
			c := ex.p.FreshConst(base+fmt.Sprintf("_r%d", i), w.SortOf(t))
			ex.addFact(ex.typeFacts(c, t))
			g.Tuple = append(g.Tuple, &GVal{T: c, Typ: t})
		}
		return g
	}
	c := ex.p.FreshConst(base+"_r", w.SortOf(rt))
	ex.addFact(ex.typeFacts(c, rt))
	return &GVal{T: c, Typ: rt}
}

func (fr *Frame) invoke(in *ssa.Call) *GVal {
	ex := fr.ex
	cc := in.Common()
	recv := fr.term(fr.val(cc.Value))
	m := cc.Method.Name()
	switch m {
	case "Error", "String":
		if recv.S == SErr {
			fr.oblige("safe", "nil-error-method-call", safetyProps, Not(App("(_ is ErrNil)", SBool, recv)), in.Pos())
		}
		r := ex.p.FreshConst("text", SStr)
		ex.addFact(ex.typeFacts(r, types.Typ[types.String]))
		return &GVal{T: r, Typ: in.Type()}
	}
	if m == "Kind" && recv.S == SVal {
		// reflect.Type is modelled as VInt(kind) (see reflect.TypeOf); a nil Type panics
		fr.oblige("safe", "nil-reflect.Type", safetyProps, VIs("VInt", recv), in.Pos())
		return &GVal{T: VIntOf(recv), Typ: in.Type()}
	}
	ex.unsupp("interface method call %s", m)
	return fr.havocResult(in.Type(), m)
}

func (fr *Frame) builtin(in *ssa.Call, b *ssa.Builtin) *GVal {
	ex := fr.ex
	w := ex.p.w
	cc := in.Common()
	switch b.Name() {
	case "len":
		x := fr.val(cc.Args[0])
		switch u := cc.Args[0].Type().Underlying().(type) {
		case *types.Slice:
			return &GVal{T: fr.sliceLen(x), Typ: in.Type()}
		case *types.Basic:
			return &GVal{T: App("gs.len", SInt, fr.term(x)), Typ: in.Type()}
		case *types.Map:
			return &GVal{T: w.MpSize(fr.mapTerm(x)), Typ: in.Type()}
		case *types.Array:
			return &GVal{T: IntLit(u.Len()), Typ: in.Type()}
		case *types.Pointer:
			if a, ok := u.Elem().Underlying().(*types.Array); ok {
				return &GVal{T: IntLit(a.Len()), Typ: in.Type()}
			}
		}
	case "append":
		return fr.appendCall(in)
	case "copy":
		// copy(dst, src) where dst is a local region starting at its beginning: the first min(len) elements are replaced
		dst := fr.val(cc.Args[0])
		src := fr.val(cc.Args[1])
		if dst.Reg == nil || !isZeroLit(dst.Off) || ex.st.frozen[dst.Reg] {
			fresh := dst.Fresh
			if fresh != TTrue {
				fr.oblige("frame", "copy-target-fresh", []string{"C06", "C12", "C13"}, boolOr(fresh), in.Pos())
			}
			ex.unsupp("copy into a slice without a whole local region")
			return fr.havocResult(in.Type(), "copy")
		}
		srcT := fr.term(src)
		sl := w.SlLen(srcT)
		n := Ite(Le(dst.Len, sl), dst.Len, sl)
		es := w.SliceInfoOfSort(srcT.S).Elem
		cf := "copied_" + sortIdent(es)
		as := SArray(SInt, es)
		ex.p.DeclareFun(cf, []*Sort{as, as, SInt}, as)
		ex.p.copyAxioms[sortIdent(es)] = es
		ex.st.cells[dst.Reg] = App(cf, as, ex.st.cells[dst.Reg], w.SlArr(srcT), n)
		return &GVal{T: n, Typ: in.Type()}
	case "cap":
		x := fr.val(cc.Args[0])
		c := ex.p.FreshConst("cap", SInt)
		ex.addFact(And(Le(fr.sliceLen(x), c), Le(c, maxLen)))
		return &GVal{T: c, Typ: in.Type()}
	}
	ex.unsupp("builtin %s", b.Name())
	return fr.havocResult(in.Type(), b.Name())
}

func (fr *Frame) appendCall(in *ssa.Call) *GVal {
	ex := fr.ex
	w := ex.p.w
	cc := in.Common()
	s := fr.val(cc.Args[0])
	t := fr.val(cc.Args[1])
	st := in.Type().Underlying().(*types.Slice)
	es := w.SortOf(st.Elem())
	// frame: the target must be a container created in this call (or nil)
	fresh := s.Fresh
	if fresh == nil {
		fresh = TFalse
	}
	if !ex.pure {
		fr.oblige("frame", "append-target-fresh", []string{"C06", "C12", "C13"}, fresh, in.Pos())
	}
	sT := fr.term(s)
	sArr, sLen := w.SlArr(sT), w.SlLen(sT)
	// varargs array of known constant length?
	if t.Reg != nil && t.Len != nil && len(t.Len.Args) == 0 && isZeroLit(t.Off) {
		var n int64 = -1
		fmt.Sscanf(t.Len.Head, "%d", &n)
		if n >= 0 && n <= 8 {
			content := ex.st.cells[t.Reg]
			ex.st.freeze(t.Reg)
			arr := sArr
			for k := int64(0); k < n; k++ {
				arr = Store(arr, Add(sLen, IntLit(k)), Select(content, IntLit(k)))
			}
			nl := Add(sLen, IntLit(n))
			if n == 0 {
				return &GVal{T: sT, Typ: in.Type(), Fresh: fresh}
			}
			fr.oblige("safe", "append-length-in-range", safetyProps, Le(nl, maxInt), in.Pos())
			return &GVal{T: w.MkSlice(es, arr, nl, TFalse), Typ: in.Type(), Fresh: fresh}
		}
	}
	tT := fr.term(t)
	si := w.sliceSort(es)
	r := App("appendAll_"+si.Name, si.S, sT, tT)
	tLen := w.SlLen(tT)
	rArr := w.SlArr(r)
	tArr := w.SlArr(tT)
	fs := []*Term{Eq(w.SlLen(r), Add(sLen, tLen)), Eq(w.SlNil(r), And(w.SlNil(sT), Eq(tLen, IntLit(0))))}
	for k := int64(0); k < 4; k++ {
		kk := IntLit(k)
		fs = append(fs, Implies(Lt(kk, sLen), Eq(Select(rArr, kk), Select(sArr, kk))))
		fs = append(fs, Implies(And(Le(sLen, kk), Lt(kk, Add(sLen, tLen))), Eq(Select(rArr, kk), Select(tArr, Sub(kk, sLen)))))
	}
	ex.addFact(And(fs...))
	ex.p.needAppendAxiom[si.Name] = true
	return &GVal{T: r, Typ: in.Type(), Fresh: fresh}
}

// ---- spec function calls ----

var specIntrinsics = map[string]bool{"specObjPut": true, "specObjKeyAt": true}

func (fr *Frame) specCall(callee *ssa.Function, args []*GVal, rt types.Type) *GVal {
	ex := fr.ex
	name := callee.Name()
	switch name {
	case "specObjPut":
		m := fr.mapTerm(args[0])
		return &GVal{T: mapPut(ex.p.w, m, fr.term(args[1]), fr.term(args[2])), Typ: rt}
	case "specObjKeyAt":
		m := fr.mapTerm(args[0])
		mi := ex.p.w.MapInfoOfSort(m.S)
		keyAt := "keyAt_" + mi.Name
		ex.p.DeclareFun(keyAt, []*Sort{mi.S, SInt}, mi.K)
		ex.p.DeclareFun("idxOf_"+mi.Name, []*Sort{mi.S, mi.K}, SInt)
		return &GVal{T: App(keyAt, mi.K, m, fr.term(args[1])), Typ: rt}
	}
	sd := ex.p.specSig(callee)
	ts := make([]*Term, len(args))
	for i, a := range args {
		ts[i] = fr.term(a)
	}
	ex.p.ensureSpec(name)
	t := App(name, sd.Ret, ts...)
	if sd.Tuple != nil {
		return &GVal{Tuple: sd.tupleVals(t), Typ: rt}
	}
	return &GVal{T: t, Typ: rt}
}

// ---- inlining ----

func (fr *Frame) inlineCall(in *ssa.Call, callee *ssa.Function, args []*GVal) *GVal {
	ex := fr.ex
	name := funcDisplayName(callee)
	for _, s := range ex.callStack {
		if s == name {
			ex.unsupp("recursive call to %s without contract", name)
			return fr.havocResult(in.Type(), name)
		}
	}
	if len(ex.callStack) > 12 {
		ex.unsupp("inline depth exceeded at %s", name)
		return fr.havocResult(in.Type(), name)
	}
	ex.callStack = append(ex.callStack, name)
	sub := ex.newFrame(callee, fr.cur, fr.prefix+"call("+name+")/")
	sub.run(args, ex.st)
	ex.callStack = ex.callStack[:len(ex.callStack)-1]
	res := fr.mergeReturns(sub, in.Type())
	return res
}

// mergeReturns merges a sub-frame's return points into a value and sets the current state.
func (fr *Frame) mergeReturns(sub *Frame, rt types.Type) *GVal {
	ex := fr.ex
	if len(sub.rets) == 0 {
		// callee never returns (always panics); nothing after is reachable
		fr.cur = TFalse
		fr.reach[fr.curBlock] = TFalse
		return fr.havocResult(rt, "noreturn")
	}
	// with several return points, values living in local regions are materialised in their own state first
	if len(sub.rets) > 1 {
		for ri := range sub.rets {
			r := &sub.rets[ri]
			ex.st = r.st
			for k, v := range r.vals {
				if v.Reg != nil || (v.T == nil && v.Origin != nil) {
					r.vals[k] = &GVal{T: fr.term(v), Typ: v.Typ, Fresh: v.Fresh}
				}
			}
		}
	}
	// state merge
	if len(sub.rets) == 1 {
		ex.st = sub.rets[0].st
	} else {
		tmp := &Frame{ex: ex, out: map[*ssa.BasicBlock]*State{}, edge: map[[2]int]*Term{}, reach: map[*ssa.BasicBlock]*Term{}}
		var preds []*ssa.BasicBlock
		for i, r := range sub.rets {
			b := &ssa.BasicBlock{Index: i}
			tmp.out[b] = r.st
			tmp.reach[b] = r.cond
			preds = append(preds, b)
		}
		tgt := &ssa.BasicBlock{Index: len(sub.rets) + 1}
		ex.st = tmp.mergeStates(preds, tgt)
	}
	// the code after the call is reached only if the callee returned
	var rc []*Term
	for _, r := range sub.rets {
		rc = append(rc, r.cond)
	}
	nr := Or(rc...)
	fr.cur = nr
	fr.reach[fr.curBlock] = nr
	n := len(sub.rets[0].vals)
	if n == 0 {
		return &GVal{Typ: rt}
	}
	var outs []*GVal
	for k := 0; k < n; k++ {
		var gv []*GVal
		var conds []*Term
		for _, r := range sub.rets {
			gv = append(gv, r.vals[k])
			conds = append(conds, r.cond)
		}
		var t types.Type
		if tup, ok := rt.(*types.Tuple); ok {
			t = tup.At(k).Type()
		} else {
			t = rt
		}
		outs = append(outs, fr.mergeVals(gv, conds, t))
	}
	if n == 1 {
		return outs[0]
	}
	return &GVal{Tuple: outs, Typ: rt}
}

// ---- modular calls ----

func (ex *Exec) paramNames(fn *ssa.Function) []string {
	var ns []string
	for _, p := range fn.Params {
		ns = append(ns, p.Name())
	}
	return ns
}

func resultNames(fn *ssa.Function) []string {
	res := fn.Signature.Results()
	var ns []string
	for i := 0; i < res.Len(); i++ {
		n := res.At(i).Name()
		if n == "" || n == "_" {
			if res.Len() == 1 && types.TypeString(res.At(i).Type(), nil) == "error" {
				n = "err"
			} else if res.Len() == 1 {
				n = "result"
			} else if i == res.Len()-1 && types.TypeString(res.At(i).Type(), nil) == "error" {
				n = "err"
			} else if i == 0 {
				n = "result"
			} else {
				n = fmt.Sprintf("r%d", i)
			}
		}
		ns = append(ns, n)
	}
	return ns
}

func (fr *Frame) contractCall(in *ssa.Call, callee *ssa.Function, c *Contract, args []*GVal) *GVal {
	ex := fr.ex
	name := funcDisplayName(callee)
	pre := "call(" + name + ")"
	// bind parameters: materialise as terms (publishes local objects passed by pointer)
	vars := map[string]*GVal{}
	for i, p := range callee.Params {
		a := args[i]
		g := &GVal{T: fr.term(a), Typ: p.Type(), Fresh: a.Fresh}
		if _, isPtr := p.Type().Underlying().(*types.Pointer); isPtr && i == 0 && callee.Signature.Recv() != nil {
			fr.oblige("safe", pre+"/receiver-non-nil", safetyProps, Not(Eq(g.T, IntLit(0))), in.Pos())
		}
		vars[p.Name()] = g
	}
	ex.p.aliasParams(callee, vars)
	fr.bindGhosts(c, name, vars, in)
	before := ex.st.clone()
	envPre := &Env{fr: fr, vars: vars, st: before, old: before, oldVars: vars}
	for i, cl := range c.Requires {
		fr.oblige("requires", pre+"/"+clauseLabel2(cl, "requires", i), cl.Props, fr.evalBool(cl.Expr, envPre), in.Pos())
	}
	// termination of recursion
	if ex.p.sameSCC(ex.fname, name) {
		fr.checkMeasure(c, pre, envPre, in)
	}
	// havoc assigned heap fields at the receiver / pointer parameters
	for _, a := range c.Assigns {
		key := strings.TrimSuffix(a, "[*]")
		parts := strings.SplitN(key, ".", 2)
		if len(parts) != 2 {
			continue
		}
		fs := ex.heapFieldSort(parts[0], parts[1])
		h := ex.heapGet(ex.st, key, fs)
		// which object: the pointer parameter of that type
		var obj *Term
		for i, p := range callee.Params {
			if pt, ok := p.Type().Underlying().(*types.Pointer); ok {
				if n, ok := pt.Elem().(*types.Named); ok && n.Obj().Name() == parts[0] {
					obj = vars[callee.Params[i].Name()].T
				}
			}
		}
		if obj == nil {
			ex.st.heap[key] = ex.p.FreshConst("H_"+key, SArray(SInt, fs))
		} else {
			nv := ex.p.FreshConst(name+"_"+parts[1], fs)
			ex.st.heap[key] = Store(h, obj, nv)
			// frame of the caller: writing the callee's assigns needs permission too
			if !ex.freshRefs[obj] {
				fr.frameWrite(key, &Ptr{Ref: obj, RefTy: parts[0], Path: []PathElem{{Field: parts[1]}}}, in.Pos())
			}
		}
	}
	if !c.HasAssigns && !c.Pure {
		// no frame given: everything reachable may change
		for k := range ex.st.heap {
			parts := strings.SplitN(k, ".", 2)
			ex.st.heap[k] = ex.p.FreshConst("H_"+k, SArray(SInt, ex.heapFieldSort(parts[0], parts[1])))
		}
		ex.unsupp("callee %s has no assigns clause: heap havocked", name)
	}
	if callee.Pkg != nil && callee.Pkg == ex.p.mainPkg {
		// functions of the command may print: their contract says what
		for _, k := range ioGhosts {
			ex.st.ghost[k.name] = ex.p.FreshConst(k.name+"_after_"+callee.Name(), k.sort)
		}
	}
	res := fr.havocResult(in.Type(), name)
	if fr.fn.Pkg != nil && fr.fn.Pkg == ex.p.mainPkg || callee.Name() == "CallFunction" || (fr.top && ex.c != nil && ex.c.UsesCallRecords) {
		// remember what was passed and returned, for \arg(f, i) and \ret(f, i) in the caller's contract
		for i := range callee.Params {
			if t := vars[callee.Params[i].Name()].T; t != nil {
				ex.st.ghost[fmt.Sprintf("arg:%s:%d", callee.Name(), i)] = t
				ex.p.ghostSorts[fmt.Sprintf("arg:%s:%d", callee.Name(), i)] = t.S
			}
		}
		if res.Tuple != nil {
			for i, g := range res.Tuple {
				if g.T != nil {
					ex.st.ghost[fmt.Sprintf("ret:%s:%d", callee.Name(), i)] = g.T
					ex.p.ghostSorts[fmt.Sprintf("ret:%s:%d", callee.Name(), i)] = g.T.S
				}
			}
		} else if res.T != nil {
			ex.st.ghost[fmt.Sprintf("ret:%s:0", callee.Name())] = res.T
			ex.p.ghostSorts[fmt.Sprintf("ret:%s:0", callee.Name())] = res.T.S
		}
	}
	rn := resultNames(callee)
	post := map[string]*GVal{}
	for k, v := range vars {
		post[k] = v
	}
	if res.Tuple != nil {
		for i, g := range res.Tuple {
			if i < len(rn) {
				post[rn[i]] = g
			}
		}
	} else if len(rn) == 1 {
		post[rn[0]] = res
	}
	if c.Fresh {
		// a freshly allocated slice result may be written by the caller: give it a region
		if res.Tuple != nil {
			res.Tuple[0].Fresh = TTrue
		} else {
			res.Fresh = TTrue
		}
		// a fresh object reference: distinct from nil and from the objects known so far
		var r0 *GVal = res
		if res.Tuple != nil {
			r0 = res.Tuple[0]
		}
		if _, isPtr := r0.Typ.Underlying().(*types.Pointer); isPtr && r0.T != nil && r0.T.S == SInt {
			ex.freshRefs[r0.T] = true
		}
	}
	envPost := &Env{fr: fr, vars: post, st: ex.st, old: before, oldVars: vars}
	for _, cl := range c.Ensures {
		if cl.Tier == "internal" {
			continue // talks about the callee's local variables: checked in the callee, not usable here
		}
		// one fact per clause, so that hypothesis slicing can drop the heavy ones individually
		ex.addFact(Implies(fr.cur, fr.evalBool(cl.Expr, envPost)))
	}
	// error tracking
	fr.trackErr(name, res)
	if c.Fresh {
		if res.Tuple != nil {
			res.Tuple[0] = mkRegionOf(fr, res.Tuple[0], name, in)
		} else {
			res = mkRegionOf(fr, res, name, in)
		}
	}
	return res
}

func clauseLabel2(cl *Clause, kind string, i int) string {
	if cl.Label != "" {
		return cl.Label
	}
	return fmt.Sprintf("%s%d", kind, i+1)
}

// trackErr records that an evaluation call returned an error (ghost errSeen) for G-ERR.
func (fr *Frame) trackErr(name string, res *GVal) {
	ex := fr.ex
	if !errTracked[name] || res.Tuple == nil {
		return
	}
	last := res.Tuple[len(res.Tuple)-1]
	if last.T == nil || last.T.S != SErr {
		return
	}
	isErr := Not(App("(_ is ErrNil)", SBool, last.T))
	cur := ex.st.ghost["errSeen"]
	if cur == nil {
		cur = TFalse
	}
	ex.st.ghost["errSeen"] = Or(cur, And(fr.cur, isErr))
}

var errTracked = map[string]bool{
	"(*treeInterpreter).Execute": true, "(*functionCaller).CallFunction": true, "slice": true,
	"(*treeInterpreter).filterProjectionWithReflection": true, "(*treeInterpreter).flattenWithReflection": true,
	"(*treeInterpreter).sliceWithReflection": true, "(*treeInterpreter).projectWithReflection": true,
	"(*treeInterpreter).fieldFromStruct": true, "computeSliceParams": true,
}

// ---- dynamic calls through function values ----

func (fr *Frame) dynamicCall(in *ssa.Call) *GVal {
	ex := fr.ex
	cc := in.Common()
	fv := fr.term(fr.val(cc.Value))
	var args []*GVal
	for _, a := range cc.Args {
		args = append(args, fr.val(a))
	}
	sig := cc.Signature()
	// candidates: package functions of identical signature that have contracts
	var cands []*ssa.Function
	for _, n := range ex.p.fnames {
		f := ex.p.funcs[n]
		if f.Signature.Recv() == nil && types.Identical(f.Signature, sig) && !ex.p.isSpecFunc(f) {
			cands = append(cands, f)
		}
	}
	res := fr.havocResult(in.Type(), "dyncall")
	// when the function value is the handler field of a table entry, each arm determines the entry:
	// stated as a lemma obligation (cheap, ground) and then used as a fact
	entryOf := map[string]*Term{}
	var holder *Term
	if len(fv.Args) == 1 && strings.HasSuffix(fv.Head, "_handler") {
		holder = fv.Args[0]
		if tbl := ex.p.functionTable(); tbl != nil {
			arr := ex.p.w.MpVal(tbl)
			for arr.Head == "store" {
				ent := arr.Args[2]
				if ent.S == holder.S {
					h := ex.p.w.Field(ent, "handler")
					entryOf[h.Head] = ent
				}
				arr = arr.Args[0]
			}
		}
	}
	var isOne []*Term
	for _, f := range cands {
		name := funcDisplayName(f)
		id := ex.p.w.FuncID(name)
		isOne = append(isOne, Eq(fv, id))
		c := ex.p.contractFor(ex.fname, name)
		if c == nil {
			// no contract: nothing known about this arm
			fr.oblige("requires", "dyncall/"+name+"/has-contract", safetyProps, Not(Eq(fv, id)), in.Pos())
			continue
		}
		vars := map[string]*GVal{}
		for i, p := range f.Params {
			vars[p.Name()] = &GVal{T: fr.term(args[i]), Typ: p.Type()}
		}
		ex.p.aliasParams(f, vars)
		fr.bindGhosts(c, "dyncall", vars, in)
		envPre := &Env{fr: fr, vars: vars, st: ex.st, old: ex.st, oldVars: vars}
		saved := fr.cur
		fr.cur = And(saved, Eq(fv, id))
		if ent := entryOf[id.Head]; ent != nil && holder != nil {
			fr.oblige("requires", "dyncall("+name+")/lemma-entry-determined-by-handler", safetyProps, Eq(holder, ent), in.Pos())
		}
		for i, cl := range c.Requires {
			fr.oblige("requires", "dyncall("+name+")/"+clauseLabel2(cl, "requires", i), cl.Props, fr.evalBool(cl.Expr, envPre), in.Pos())
		}
		if ex.p.sameSCC(ex.fname, name) {
			fr.checkMeasure(c, "dyncall("+name+")", envPre, in)
		}
		fr.cur = saved
		post := map[string]*GVal{}
		for k, v := range vars {
			post[k] = v
		}
		rn := resultNames(f)
		for i, g := range res.Tuple {
			post[rn[i]] = g
		}
		envPost := &Env{fr: fr, vars: post, st: ex.st, old: ex.st, oldVars: vars}
		for _, cl := range c.Ensures {
			ex.addFact(Implies(And(fr.cur, Eq(fv, id)), fr.evalBool(cl.Expr, envPost)))
		}
		if len(c.Assigns) > 0 || !c.HasAssigns {
			ex.unsupp("dynamic callee %s with non-empty frame", name)
		}
	}
	fr.oblige("safe", "dyncall/function-value-is-known", safetyProps, Or(isOne...), in.Pos())
	fr.trackErrDyn(res)
	return res
}

func (fr *Frame) trackErrDyn(res *GVal) {
	ex := fr.ex
	if res.Tuple == nil {
		return
	}
	last := res.Tuple[len(res.Tuple)-1]
	if last.T == nil || last.T.S != SErr {
		return
	}
	cur := ex.st.ghost["errSeen"]
	if cur == nil {
		cur = TFalse
	}
	ex.st.ghost["errSeen"] = Or(cur, And(fr.cur, Not(App("(_ is ErrNil)", SBool, last.T))))
}

// publish turns a local struct cell into a heap object reference (when its address escapes).
func (fr *Frame) publish(c *Cell) *Term {
	ex := fr.ex
	if c.pub != nil {
		return c.pub
	}
	n, ok := c.typ.(*types.Named)
	if !ok {
		ex.unsupp("escaping pointer to unnamed type %s", c.typ)
		return ex.p.FreshConst("ref", SInt)
	}
	st, ok := n.Underlying().(*types.Struct)
	if !ok {
		ex.unsupp("escaping pointer to non-struct %s", c.typ)
		return ex.p.FreshConst("ref", SInt)
	}
	r := ex.p.FreshConst("new_"+n.Obj().Name(), SInt)
	var ne []*Term
	ne = append(ne, Not(Eq(r, IntLit(0))))
	for _, g := range ex.entryParams {
		if g.T != nil && g.T.S == SInt && g.Typ != nil {
			if pt, ok := g.Typ.Underlying().(*types.Pointer); ok && types.Identical(pt.Elem(), n) {
				ne = append(ne, Not(Eq(r, g.T)))
			}
		}
	}
	for o := range ex.freshRefs {
		ne = append(ne, Not(Eq(r, o)))
	}
	ex.addFact(And(ne...))
	ex.freshRefs[r] = true
	content := ex.st.cells[c]
	for i := 0; i < st.NumFields(); i++ {
		f := st.Field(i).Name()
		key := n.Obj().Name() + "." + f
		fs := ex.heapFieldSort(n.Obj().Name(), f)
		h := ex.heapGet(ex.st, key, fs)
		ex.st.heap[key] = Store(h, r, ex.p.w.Field(content, f))
	}
	c.pub = r
	c.pubTy = n.Obj().Name()
	return r
}

var _ = token.NoPos

// mkRegionOf gives a freshly allocated slice result a local region so the caller may write it.
func mkRegionOf(fr *Frame, g *GVal, name string, in ssa.Instruction) *GVal {
	ex := fr.ex
	if sl, ok := g.Typ.Underlying().(*types.Slice); ok && g.T != nil {
		es := ex.p.w.SortOf(sl.Elem())
		cell := ex.newCell("fresh@"+name, types.NewArray(sl.Elem(), 0), SArray(SInt, es), in)
		ex.st.cells[cell] = ex.p.w.SlArr(g.T)
		return &GVal{Reg: cell, Off: IntLit(0), Len: ex.p.w.SlLen(g.T), Typ: g.Typ, Fresh: TTrue, NilT: ex.p.w.SlNil(g.T)}
	}
	return g
}

// checkMeasure: a call inside a recursive cycle must go to a strictly smaller measure.
func (fr *Frame) checkMeasure(c *Contract, pre string, envPre *Env, in ssa.Instruction) {
	ex := fr.ex
	if len(c.Decreases) == 0 || len(ex.measureEntry) == 0 {
		fr.oblige("term", pre+"/recursive-call-has-measure", []string{"C05"}, TFalse, in.Pos())
		return
	}
	var now []*Term
	for _, cl := range c.Decreases {
		now = append(now, fr.evalTerm(cl.Expr, envPre))
	}
	old := ex.measureEntry
	for len(now) < len(old) {
		now = append(now, IntLit(0))
	}
	for len(old) < len(now) {
		old = append(append([]*Term{}, old...), IntLit(0))
	}
	fr.oblige("term", pre+"/measure-decreases", []string{"C05"}, lexLess(now, old), in.Pos())
}

// bindGhosts evaluates the caller's bindings for the callee's ghost parameters.
func (fr *Frame) bindGhosts(c *Contract, calleeKey string, vars map[string]*GVal, in ssa.Instruction) {
	ex := fr.ex
	if len(c.GhostParams) == 0 {
		return
	}
	var binds map[string]*CExpr
	if ex.c != nil && ex.c.CallBind != nil {
		binds = ex.c.CallBind[calleeKey]
		if binds == nil {
			binds = ex.c.CallBind[c.Func]
		}
	}
	for _, gp := range c.GhostParams {
		e := binds[gp[0]]
		if e == nil {
			ex.unsupp("no binding for ghost parameter %s of %s at its call in %s", gp[0], c.Func, ex.fname)
			gs := sortByName(ex.p.w, ex.p, gp[1])
			if gs == nil {
				gs = SInt
			}
			vars[gp[0]] = &GVal{T: ex.p.FreshConst("ghost_"+gp[0], gs)}
			continue
		}
		env := fr.entryEnv()
		env.dbgHead = in.Block()
		vars[gp[0]] = &GVal{T: fr.evalTerm(e, env), Typ: typeByName(ex.p, gp[1])}
	}
}

// mapPut is the functional model of m[k] = v (shared by MapUpdate and the specObjPut intrinsic).
func mapPut(w *World, cur, k, v *Term) *Term {
	mi := w.MapInfoOfSort(cur.S)
	dom := w.MpDom(cur)
	nsize := Ite(Select(dom, k), w.MpSize(cur), Add(w.MpSize(cur), IntLit(1)))
	return w.MkMap(mi, Store(dom, k, TTrue), Store(w.MpVal(cur), k, v), nsize, TFalse)
}
