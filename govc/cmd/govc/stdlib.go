package main

// Assumed contracts of standard-library functions (the trusted base, DESIGN 2.8).
// Each handler states the contract it assumes; every use is recorded in Prog.assumptions.

import (
	"go/types"

	"golang.org/x/tools/go/ssa"
)

func (fr *Frame) stdlibCall(in *ssa.Call, callee *ssa.Function, args []*GVal) *GVal {
	ex := fr.ex
	w := ex.p.w
	name := callee.String() // e.g. "errors.New", "(*bytes.Buffer).WriteString"
	if callee.Pkg != nil {
		name = callee.Pkg.Pkg.Path() + "." + callee.Name()
		if recv := callee.Signature.Recv(); recv != nil {
			name = callee.String()
		}
	}
	use := func(s string) { ex.p.assumptions["stdlib: "+s] = true }
	strRes := func() *GVal {
		r := ex.p.FreshConst("text", SStr)
		ex.addFact(ex.typeFacts(r, types.Typ[types.String]))
		return &GVal{T: r, Typ: in.Type()}
	}
	slen := func(t *Term) *Term { return App("gs.len", SInt, t) }
	switch name {
	case "errors.New":
		use("errors.New returns a non-nil error that is not a SyntaxError")
		return &GVal{T: App("ErrOther", SErr, ex.p.FreshConst("errid", SInt)), Typ: in.Type()}
	case "fmt.Errorf":
		use("fmt.Errorf returns a non-nil error that is not a SyntaxError; never panics")
		return &GVal{T: App("ErrOther", SErr, ex.p.FreshConst("errid", SInt)), Typ: in.Type()}
	case "fmt.Sprintf", "strconv.Quote", "strconv.QuoteRuneToASCII", "strconv.Itoa", "strconv.FormatInt":
		use(name + " returns some string; never panics")
		return strRes()
	case "strconv.Atoi":
		use("strconv.Atoi is a function of its argument: err==nil implies the result is an int (in range); otherwise the result is 0 and the error is not a SyntaxError of this package")
		p := ex.p
		p.DeclareFun("atoiVal", []*Sort{SStr}, SInt)
		p.DeclareFun("atoiOK", []*Sort{SStr}, SBool)
		p.DeclareFun("atoiErrId", []*Sort{SStr}, SInt)
		s := fr.term(args[0])
		okc := App("atoiOK", SBool, s)
		r := Ite(okc, App("atoiVal", SInt, s), IntLit(0))
		ex.addFact(ex.typeFacts(App("atoiVal", SInt, s), types.Typ[types.Int]))
		p.atoiAxiom = true
		e := Ite(okc, mk("ErrNil", SErr), App("ErrOther", SErr, App("atoiErrId", SInt, s)))
		return &GVal{Tuple: []*GVal{{T: r, Typ: types.Typ[types.Int]}, {T: e, Typ: errType()}}, Typ: in.Type()}
	case "strings.Repeat":
		use("strings.Repeat panics iff count < 0; len(result) == len(s)*count")
		cnt := fr.term(args[1])
		fr.oblige("safe", "strings.Repeat-count-non-negative", []string{"C05", "C17"}, Le(IntLit(0), cnt), in.Pos())
		s := fr.term(args[0])
		ex.p.DeclareFun("gs.repeat", []*Sort{SStr, SInt}, SStr)
		r := App("gs.repeat", SStr, s, cnt)
		ex.addFact(Implies(Eq(slen(s), IntLit(1)), Eq(slen(r), cnt)))
		ex.addFact(Le(IntLit(0), slen(r)))
		return &GVal{T: r, Typ: in.Type()}
	case "strings.Replace":
		use("strings.Replace(s, old, new, n) == str.replace(s, old, new) for n < 0; never panics")
		ex.p.DeclareFun("gs.replaceAll", []*Sort{SStr, SStr, SStr}, SStr)
		ex.p.DeclareFun("gs.replaceN", []*Sort{SStr, SStr, SStr, SInt}, SStr)
		// every occurrence is replaced exactly when the count is negative; otherwise the result also
		// depends on the count
		cnt := fr.term(args[3])
		r := Ite(Lt(cnt, IntLit(0)), App("gs.replaceAll", SStr, fr.term(args[0]), fr.term(args[1]), fr.term(args[2])),
			App("gs.replaceN", SStr, fr.term(args[0]), fr.term(args[1]), fr.term(args[2]), cnt))
		ex.addFact(Le(IntLit(0), slen(r)))
		return &GVal{T: r, Typ: in.Type()}
	case "strings.HasPrefix", "strings.HasSuffix", "strings.Contains":
		use(name + " is a total predicate on two strings")
		fn := map[string]string{"strings.HasPrefix": "gs.prefixof", "strings.HasSuffix": "gs.suffixof", "strings.Contains": "gs.contains"}[name]
		ex.p.DeclareFun(fn, []*Sort{SStr, SStr}, SBool)
		return &GVal{T: App(fn, SBool, fr.term(args[0]), fr.term(args[1])), Typ: in.Type()}
	case "strings.Join":
		use("strings.Join is a total function of the element sequence and the separator")
		a := fr.term(args[0])
		ex.p.DeclareFun("gs.join", []*Sort{a.S, SStr}, SStr)
		r := App("gs.join", SStr, a, fr.term(args[1]))
		ex.addFact(Le(IntLit(0), slen(r)))
		return &GVal{T: r, Typ: in.Type()}
	case "unicode/utf8.DecodeRuneInString":
		use("utf8.DecodeRuneInString: empty -> (RuneError,0); else 1<=w<=4, w<=len(s); r<0x80 iff s[0]<0x80 and then r==s[0], w==1; r>=0")
		s := fr.term(args[0])
		ex.p.DeclareFun("utf8.rune", []*Sort{SStr}, SBV32)
		ex.p.DeclareFun("utf8.width", []*Sort{SStr}, SInt)
		r := App("utf8.rune", SBV32, s)
		wd := App("utf8.width", SInt, s)
		b0 := App("gs.at", SBV8, s, IntLit(0))
		ascii := App("bvult", SBool, b0, BVLit(0x80, 8))
		ex.addFact(And(
			Implies(Eq(slen(s), IntLit(0)), And(Eq(wd, IntLit(0)), Eq(r, BVLit(0xFFFD, 32)))),
			Implies(Lt(IntLit(0), slen(s)), And(Le(IntLit(1), wd), Le(wd, IntLit(4)), Le(wd, slen(s)))),
			Implies(And(Lt(IntLit(0), slen(s)), ascii), And(Eq(wd, IntLit(1)), Eq(r, bvResize(b0, 32, false)))),
			Implies(And(Lt(IntLit(0), slen(s)), Not(ascii)), App("bvsge", SBool, r, BVLit(0x80, 32))),
			App("bvsge", SBool, r, BVLit(0, 32)), App("bvsle", SBool, r, BVLit(0x10FFFF, 32)),
		))
		return &GVal{Tuple: []*GVal{{T: r, Typ: types.Typ[types.Int32]}, {T: wd, Typ: types.Typ[types.Int]}}, Typ: in.Type()}
	case "unicode/utf8.RuneCountInString":
		use("utf8.RuneCountInString: 0 <= n <= len(s)")
		s := fr.term(args[0])
		ex.p.DeclareFun("utf8.count", []*Sort{SStr}, SInt)
		r := App("utf8.count", SInt, s)
		ex.addFact(And(Le(IntLit(0), r), Le(r, slen(s))))
		return &GVal{T: r, Typ: in.Type()}
	case "unicode.ToUpper":
		use("unicode.ToUpper is total")
		ex.p.DeclareFun("unicode.upper", []*Sort{SBV32}, SBV32)
		return &GVal{T: App("unicode.upper", SBV32, fr.term(args[0])), Typ: in.Type()}
	case "math.IsNaN":
		use("math.IsNaN / math.IsInf are the IEEE-754 classifications")
		return &GVal{T: App("fp.isNaN", SBool, fr.term(args[0])), Typ: in.Type()}
	case "math.IsInf":
		use("math.IsNaN / math.IsInf are the IEEE-754 classifications")
		x := fr.term(args[0])
		sg := fr.term(args[1])
		inf := App("fp.isInfinite", SBool, x)
		pos := App("fp.isPositive", SBool, x)
		return &GVal{T: And(inf, Or(Eq(sg, IntLit(0)), And(Gt(sg, IntLit(0)), pos), And(Lt(sg, IntLit(0)), Not(pos)))), Typ: in.Type()}
	case "math.Abs", "math.Ceil", "math.Floor":
		use(name + " is the IEEE-754 operation")
		x := fr.term(args[0])
		var r *Term
		switch name {
		case "math.Abs":
			r = App("fp.abs", SF64, x)
		case "math.Ceil":
			r = App("fp.roundToIntegral", SF64, mk("RTP", mkSort("RoundingMode")), x)
		default:
			r = App("fp.roundToIntegral", SF64, mk("RTN", mkSort("RoundingMode")), x)
		}
		return &GVal{T: r, Typ: in.Type()}
	case "(*bytes.Buffer).WriteString", "(*bytes.Buffer).String", "(*bytes.Buffer).Reset":
		use("bytes.Buffer: WriteString appends, String returns the contents, Reset empties; modelled as a string-valued field")
		p := fr.asPtr(args[0], callee.Params[0].Type(), in.Pos())
		cur := fr.bufRead(p)
		switch callee.Name() {
		case "WriteString":
			s := fr.term(args[1])
			r := App("gs.cat", SStr, cur, s)
			ex.addFact(Eq(slen(r), Add(slen(cur), slen(s))))
			fr.bufWrite(p, r, in)
			return &GVal{Tuple: []*GVal{{T: slen(s), Typ: types.Typ[types.Int]}, {T: mk("ErrNil", SErr), Typ: errType()}}, Typ: in.Type()}
		case "String":
			return &GVal{T: cur, Typ: in.Type()}
		default:
			fr.bufWrite(p, w.StrLit(""), in)
			return &GVal{Typ: in.Type()}
		}
	}
	if g := fr.stdlibCall2(in, callee, name, args); g != nil {
		return g
	}
	// unknown library function: whatever it is handed a pointer to may be written
	for i, a := range args {
		if a.Ptr == nil || a.T != nil {
			continue
		}
		pp := a.Ptr
		if pp.Cell != nil && pp.Cell.pub != nil {
			pp = &Ptr{Ref: pp.Cell.pub, RefTy: pp.Cell.pubTy, Path: pp.Path}
		}
		switch {
		case pp.Ref != nil && len(pp.Path) > 0 && pp.Path[0].Field != "":
			key := pp.RefTy + "." + pp.Path[0].Field
			fs := ex.heapFieldSort(pp.RefTy, pp.Path[0].Field)
			h := ex.heapGet(ex.st, key, fs)
			ex.st.heap[key] = Store(h, pp.Ref, ex.p.FreshConst("written_by_"+callee.Name(), fs))
			fr.frameWrite(key, pp, in.Pos())
		case pp.Global != nil:
			fr.oblige("frame", "global-write("+pp.Global.Name()+")", []string{"C12", "C13"}, TFalse, in.Pos())
		case pp.Cell != nil:
			ex.st.cells[pp.Cell] = ex.p.FreshConst("written_by_"+callee.Name(), pp.Cell.sort)
		}
		_ = i
	}
	ex.unsupp("call to %s has no assumed contract", name)
	return fr.havocResult(in.Type(), callee.Name())
}

func (fr *Frame) stdlibDispatch(in *ssa.Call, callee *ssa.Function, args []*GVal) *GVal {
	name := callee.String()
	if callee.Pkg != nil {
		name = callee.Pkg.Pkg.Path() + "." + callee.Name()
		if recv := callee.Signature.Recv(); recv != nil {
			name = callee.String()
		}
	}
	if fr.fn.Pkg != nil && fr.fn.Pkg == fr.ex.p.mainPkg {
		if g, ok := fr.cmdCall(in, name, args); ok {
			return g
		}
	}
	return fr.stdlibCall(in, callee, args)
}

func errType() types.Type { return types.Universe.Lookup("error").Type() }

// bytes.Buffer is modelled as a Str: struct sort S_bytes_Buffer is replaced by a string content cell.
func (fr *Frame) bufRead(p *Ptr) *Term {
	t := fr.load(p)
	if t.S == SStr {
		return t
	}
	// the buffer struct: use an uninterpreted projection to its contents
	fr.ex.p.DeclareFun("buf.contents", []*Sort{t.S}, SStr)
	return App("buf.contents", SStr, t)
}

func (fr *Frame) bufWrite(p *Ptr, v *Term, in *ssa.Call) {
	ex := fr.ex
	t := fr.load(p)
	if t.S == SStr {
		fr.store(p, v, in.Pos())
		return
	}
	ex.p.DeclareFun("buf.make", []*Sort{SStr}, t.S)
	ex.p.DeclareFun("buf.contents", []*Sort{t.S}, SStr)
	nb := App("buf.make", t.S, v)
	ex.addFact(Eq(App("buf.contents", SStr, nb), v))
	fr.store(p, nb, in.Pos())
}

func (fr *Frame) stdlibCall2(in *ssa.Call, callee *ssa.Function, name string, args []*GVal) *GVal {
	ex := fr.ex
	p := ex.p
	w := p.w
	use := func(s string) { p.assumptions["stdlib: "+s] = true }
	rvS := w.rvSort()
	rvVal := func(r *Term) *Term { return vsel("rv_val", SVal, "mkRV", 0, r) }
	rvValid := func(r *Term) *Term { return vsel("rv_valid", SBool, "mkRV", 1, r) }
	rvRO := func(r *Term) *Term { return vsel("rv_ro", SBool, "mkRV", 2, r) }
	kind := func(r *Term) *Term { return Ite(rvValid(r), App("kindOf", SInt, rvVal(r)), IntLit(0)) }
	kindIn := func(r *Term, ks ...int64) *Term {
		var ds []*Term
		for _, k := range ks {
			ds = append(ds, Eq(kind(r), IntLit(k)))
		}
		return Or(ds...)
	}
	goFn := func(n string, args []*Sort, ret *Sort) { p.DeclareFun(n, args, ret) }
	// what reflection extracts from a Go document value is again a Go document value (never one of
	// the interpreter's internal values)
	goClosed := func(v, part *Term) {
		if sd, ok := p.specs["specGoVal"]; ok && !ex.pure {
			p.ensureSpec("specGoVal")
			ex.addFact(Implies(App("specGoVal", sd.Ret, v), App("specGoVal", sd.Ret, part)))
			p.assumptions["reflect: the elements, fields and pointees of a Go document value are Go document values (specGoVal)"] = true
		}
	}
	switch name {
	case "encoding/json.Unmarshal":
		use("json.Unmarshal(data, &x): never panics; err == nil implies x == jsonDecode(data), a JSON value (specJSONVal) resp. a string; its error is not a SyntaxError of this package")
		data := fr.term(args[0])
		tgt := args[1]
		goFn("jsonOK", []*Sort{data.S}, SBool)
		goFn("jsonErrId", []*Sort{data.S}, SInt)
		okc := App("jsonOK", SBool, data)
		e := Ite(okc, mk("ErrNil", SErr), App("ErrOther", SErr, App("jsonErrId", SInt, data)))
		if tgt.Ptr != nil && tgt.Ptr.Cell != nil && len(tgt.Ptr.Path) == 0 {
			c := tgt.Ptr.Cell
			switch c.sort {
			case SStr:
				goFn("jsonDecodeStr", []*Sort{data.S}, SStr)
				goFn("jsonPartialStr", []*Sort{data.S}, SStr)
				nv := App("jsonDecodeStr", SStr, data)
				ex.addFact(ex.typeFacts(nv, types.Typ[types.String]))
				ex.st.cells[c] = Ite(okc, nv, App("jsonPartialStr", SStr, data))
			case SVal:
				goFn("jsonDecode", []*Sort{data.S}, SVal)
				goFn("jsonPartial", []*Sort{data.S}, SVal)
				nv := App("jsonDecode", SVal, data)
				p.jsonAxiom = true
				if _, ok := p.specs["specJSONVal"]; ok {
					ex.addFact(Implies(okc, App("specJSONVal", SBool, nv)))
				}
				ex.st.cells[c] = Ite(okc, nv, App("jsonPartial", SVal, data))
			default:
				ex.unsupp("json.Unmarshal into %s", c.sort.S)
			}
		} else {
			ex.unsupp("json.Unmarshal target is not a local variable")
		}
		return &GVal{T: e, Typ: in.Type()}
	case "encoding/json.Marshal", "encoding/json.MarshalIndent":
		use("json.Marshal(v): never panics; succeeds on JSON data (specJSONVal) with text t such that jsonDecode(t) is deeply equal to v; its error is not a SyntaxError of this package")
		v := fr.term(args[0])
		bs := w.sliceSort(SBV8)
		goFn("jsonEncode", []*Sort{SVal}, bs.S)
		goFn("jsonDecode", []*Sort{bs.S}, SVal)
		goFn("jsonOK", []*Sort{bs.S}, SBool)
		goFn("jsonMarshalOK", []*Sort{SVal}, SBool)
		okc := App("jsonMarshalOK", SBool, v)
		enc := App("jsonEncode", bs.S, v)
		if _, ok := p.specs["specJSONVal"]; ok {
			ex.addFact(Implies(App("specJSONVal", SBool, v), okc))
		}
		back := Eq(App("jsonDecode", SVal, enc), v)
		if _, ok := p.specs["specDeepEq"]; ok {
			// decoding the text gives a value deeply equal to v (not the same slices and maps)
			back = App("specDeepEq", SBool, App("jsonDecode", SVal, enc), v)
		}
		ex.addFact(Implies(okc, And(back, App("jsonOK", SBool, enc), Not(w.SlNil(enc)), Le(IntLit(0), w.SlLen(enc)), Le(w.SlLen(enc), maxLen))))
		goFn("jsonMarshalErr", []*Sort{SVal}, SInt)
		e := Ite(okc, mk("ErrNil", SErr), App("ErrOther", SErr, App("jsonMarshalErr", SInt, v)))
		res := Ite(okc, enc, ex.zero(types.NewSlice(types.Typ[types.Uint8])))
		return &GVal{Tuple: []*GVal{{T: res, Typ: types.NewSlice(types.Typ[types.Uint8])}, {T: e, Typ: errType()}}, Typ: in.Type()}
	case "strconv.ParseFloat":
		use("strconv.ParseFloat(s, 64): err == nil gives some float64 — possibly NaN or an infinity (it accepts \"inf\", \"nan\", hex floats, underscores); never panics")
		sT := fr.term(args[0])
		bits := fr.term(args[1]) // the precision is part of what is computed
		goFn("parseFloatVal", []*Sort{SStr, SInt}, SF64)
		goFn("parseFloatOK", []*Sort{SStr, SInt}, SBool)
		okc := App("parseFloatOK", SBool, sT, bits)
		goFn("parseFloatErr", []*Sort{SStr, SInt}, SInt)
		e := Ite(okc, mk("ErrNil", SErr), App("ErrOther", SErr, App("parseFloatErr", SInt, sT, bits)))
		return &GVal{Tuple: []*GVal{{T: App("parseFloatVal", SF64, sT, bits), Typ: types.Typ[types.Float64]}, {T: e, Typ: errType()}}, Typ: in.Type()}
	case "sort.Stable":
		return fr.sortStable(in, args, true)
	case "sort.Sort":
		// same contract without stability
		return fr.sortStable(in, args, false)
	case "reflect.ValueOf":
		use("reflect.ValueOf(i) wraps the dynamic value; ValueOf(nil) is the invalid Value")
		v := fr.term(args[0])
		return &GVal{T: App("mkRV", rvS, v, Not(VIs("VNil", v)), TFalse), Typ: in.Type()}
	case "(reflect.Value).Kind":
		use("reflect: Kind() is determined by the dynamic type (kindOf), Invalid for the zero Value")
		return &GVal{T: kind(fr.term(args[0])), Typ: in.Type()}
	case "(reflect.Value).IsValid":
		return &GVal{T: rvValid(fr.term(args[0])), Typ: in.Type()}
	case "(reflect.Value).Len":
		use("reflect: Len() panics unless kind is Array, Chan, Map, Slice or String; equals the length of the wrapped value")
		r := fr.term(args[0])
		fr.oblige("safe", "reflect.Len-kind", []string{"C05", "C18"}, kindIn(r, 17, 18, 21, 23, 24), in.Pos())
		v := rvVal(r)
		goFn("goLen", []*Sort{SVal}, SInt)
		gl := App("goLen", SInt, v)
		ex.addFact(And(Le(IntLit(0), gl), Le(gl, maxLen)))
		res := Ite(VIs("VArr", v), VLenOf(v), Ite(VIs("VObj", v), VSizeOf(v), Ite(VIs("VStr", v), App("gs.len", SInt, VStrOf(v)),
			Ite(VIs("VIntPtrs", v), App("vpn", SInt, v), gl))))
		ex.addFact(Implies(fr.cur, And(Le(IntLit(0), res), Le(res, maxLen))))
		return &GVal{T: res, Typ: in.Type()}
	case "(reflect.Value).IsNil":
		use("reflect: IsNil() panics unless kind is Chan, Func, Interface, Map, Ptr, Slice or UnsafePointer")
		r := fr.term(args[0])
		fr.oblige("safe", "reflect.IsNil-kind", []string{"C05", "C18"}, kindIn(r, 18, 19, 20, 21, 22, 23, 26), in.Pos())
		v := rvVal(r)
		goFn("goIsNil", []*Sort{SVal}, SBool)
		res := Ite(VIs("VArr", v), VArrNil(v), Ite(VIs("VObj", v), VObjNil(v), Ite(VIs("VIntr", v), Eq(App("vintr", SInt, v), IntLit(0)), App("goIsNil", SBool, v))))
		return &GVal{T: res, Typ: in.Type()}
	case "(reflect.Value).Elem":
		use("reflect: Elem() panics unless kind is Interface or Ptr; yields the pointee (invalid Value for a nil pointer)")
		r := fr.term(args[0])
		fr.oblige("safe", "reflect.Elem-kind", []string{"C05", "C18"}, kindIn(r, 20, 22), in.Pos())
		v := rvVal(r)
		goFn("goElem", []*Sort{SVal}, SVal)
		goFn("goIsNil", []*Sort{SVal}, SBool)
		goClosed(v, App("goElem", SVal, v))
		// Go documents are finite: following pointers ends (no pointer that leads back to itself)
		goFn("goDepth", []*Sort{SVal}, SInt)
		ex.addFact(And(Le(IntLit(0), App("goDepth", SInt, App("goElem", SVal, v))), Lt(App("goDepth", SInt, App("goElem", SVal, v)), App("goDepth", SInt, v))))
		p.assumptions["Go documents are finite: a chain of pointers ends (goDepth decreases along reflect.Value.Elem)"] = true
		return &GVal{T: App("mkRV", rvS, App("goElem", SVal, v), Not(App("goIsNil", SBool, v)), rvRO(r)), Typ: in.Type()}
	case "(reflect.Value).CanInterface":
		use("reflect: CanInterface() panics for the invalid Value; it is false exactly for values obtained through unexported struct fields")
		r := fr.term(args[0])
		fr.oblige("safe", "reflect.CanInterface-valid", []string{"C05", "C18"}, rvValid(r), in.Pos())
		return &GVal{T: Not(rvRO(r)), Typ: in.Type()}
	case "(reflect.Value).Interface":
		use("reflect: Interface() panics for the invalid Value and for values obtained through unexported struct fields")
		r := fr.term(args[0])
		fr.oblige("safe", "reflect.Interface-valid-and-exported", []string{"C05", "C18"}, And(rvValid(r), Not(rvRO(r))), in.Pos())
		return &GVal{T: rvVal(r), Typ: in.Type()}
	case "(reflect.Value).Index":
		use("reflect: Index(i) panics unless kind is Array, Slice or String and 0 <= i < Len()")
		r := fr.term(args[0])
		i := fr.term(args[1])
		v := rvVal(r)
		goFn("goLen", []*Sort{SVal}, SInt)
		goFn("goIndex", []*Sort{SVal, SInt}, SVal)
		// the same term Len() yields (the object case is excluded by the kind condition below)
		ln := Ite(VIs("VArr", v), VLenOf(v), Ite(VIs("VObj", v), VSizeOf(v), Ite(VIs("VStr", v), App("gs.len", SInt, VStrOf(v)),
			Ite(VIs("VIntPtrs", v), App("vpn", SInt, v), App("goLen", SInt, v)))))
		fr.oblige("safe", "reflect.Index-kind-and-range", []string{"C05", "C18"}, And(kindIn(r, 17, 23, 24), Le(IntLit(0), i), Lt(i, ln)), in.Pos())
		el := Ite(VIs("VArr", v), Select(VArrOf(v), i), App("goIndex", SVal, v, i))
		goClosed(v, App("goIndex", SVal, v, i))
		return &GVal{T: App("mkRV", rvS, el, TTrue, rvRO(r)), Typ: in.Type()}
	case "(reflect.Value).FieldByName":
		use("reflect: FieldByName panics unless kind is Struct; returns the invalid Value when there is no such field; unexported fields are read-only")
		r := fr.term(args[0])
		n := fr.term(args[1])
		fr.oblige("safe", "reflect.FieldByName-kind", []string{"C05", "C18"}, kindIn(r, 25), in.Pos())
		v := rvVal(r)
		goFn("goField", []*Sort{SVal, SStr}, SVal)
		goFn("goHasField", []*Sort{SVal, SStr}, SBool)
		goFn("goFieldUnexported", []*Sort{SVal, SStr}, SBool)
		goClosed(v, App("goField", SVal, v, n))
		return &GVal{T: App("mkRV", rvS, App("goField", SVal, v, n), App("goHasField", SBool, v, n), Or(rvRO(r), App("goFieldUnexported", SBool, v, n))), Typ: in.Type()}
	case "reflect.TypeOf":
		use("reflect.TypeOf(i) is nil for a nil interface; otherwise a Type whose Kind() is kindOf(i) (only Kind() is used)")
		v := fr.term(args[0])
		return &GVal{T: Ite(VIs("VNil", v), VNil, App("VInt", SVal, App("kindOf", SInt, v))), Typ: in.Type()}
	case "reflect.DeepEqual":
		use("reflect.DeepEqual on decoded-JSON values is specDeepEq (same constructor; numbers by ==; arrays element-wise incl. nil-ness; objects key-wise)")
		a, b := fr.term(args[0]), fr.term(args[1])
		if sd, ok := p.specs["specDeepEq"]; ok {
			p.ensureSpec("specDeepEq")
			return &GVal{T: App("specDeepEq", sd.Ret, a, b), Typ: in.Type()}
		}
		goFn("deepEq", []*Sort{SVal, SVal}, SBool)
		return &GVal{T: App("deepEq", SBool, a, b), Typ: in.Type()}
	}
	return nil
}

// sortStable models sort.Stable(x).
//   assumed: it calls only x.Len/Less/Swap with indices in range and terminates whatever Less returns;
//   for the slice adapters (Float64Slice, StringSlice) the data is permuted into ascending order;
//   for adapter objects it assigns what their Less and Swap assign (a.hasError, the elements of a.items).
func (fr *Frame) sortStable(in *ssa.Call, args []*GVal, stable bool) *GVal {
	ex := fr.ex
	p := ex.p
	w := p.w
	p.assumptions["stdlib: sort.Stable(x) only calls x.Len/Less/Swap with indices in range, terminates for any Less, and permutes the data (stable, ascending when Less is a strict weak order)"] = true
	x := args[0].Wrapped
	if x == nil {
		ex.unsupp("sort.Stable on an unknown value")
		return &GVal{Typ: in.Type()}
	}
	// case A: a named slice type with value-receiver methods (Float64Slice / StringSlice)
	if x.Reg != nil && x.Len != nil {
		es := w.SliceInfoOfSort(w.SortOf(x.Typ)).Elem
		fn := "sorted_" + sortIdent(es)
		pf := "sortPerm_" + sortIdent(es)
		as := SArray(SInt, es)
		p.DeclareFun(fn, []*Sort{as, SInt}, as)
		p.DeclareFun(pf, []*Sort{as, SInt, SInt}, SInt)
		p.sortAxioms[sortIdent(es)] = es
		if ex.st.frozen[x.Reg] {
			ex.unsupp("sort.Stable on a slice that already escaped")
		}
		// remember the call for \perm(j) in contracts: the input array, its length, the index function
		ex.st.ghost["sortArr:"+sortIdent(es)] = ex.st.cells[x.Reg]
		ex.st.ghost["sortLen"] = x.Len
		ex.st.cells[x.Reg] = App(fn, as, ex.st.cells[x.Reg], x.Len)
		return &GVal{Typ: in.Type()}
	}
	if x.Reg == nil && x.Len == nil && x.Ptr == nil && x.T != nil && w.SliceInfoOfSort(x.T.S) != nil {
		// sorting a slice that was not created in this call
		fr.oblige("frame", "sort.Stable-permutes-preexisting-slice", []string{"C06", "C12", "C13"}, boolOr(x.Fresh), in.Pos())
		ex.unsupp("sort.Stable on a slice value without a local region")
		return &GVal{Typ: in.Type()}
	}
	// case B: pointer to an adapter object of this package
	if x.Ptr != nil && x.Ptr.Cell != nil && len(x.Ptr.Path) == 0 {
		c := x.Ptr.Cell
		n, ok := c.typ.(*types.Named)
		if !ok {
			ex.unsupp("sort.Stable on %s", c.typ)
			return &GVal{Typ: in.Type()}
		}
		ref := fr.publish(c)
		tn := n.Obj().Name()
		// frame: Swap writes the elements of the slice held in items
		f := c.fieldFresh["items"]
		fr.oblige("frame", "sort.Stable-permutes-only-a-fresh-slice("+tn+".items)", []string{"C06", "C12", "C13"}, boolOr(f), in.Pos())
		// termination: sort.Stable calls back into Less/Swap, whose measures must be below the caller's
		for _, mname := range []string{"Less", "Swap"} {
			cn := "(*" + tn + ")." + mname
			if mc := p.contractFor(ex.fname, cn); mc != nil && p.sameSCC(ex.fname, cn) {
				mf := p.funcs[cn]
				vars := map[string]*GVal{}
				if mf != nil && len(mf.Params) > 0 {
					vars[mf.Params[0].Name()] = &GVal{T: ref, Typ: mf.Params[0].Type()}
					p.aliasParams(mf, vars)
				}
				envPre := &Env{fr: fr, vars: vars, st: ex.st, old: ex.st, oldVars: vars}
				fr.checkMeasure(mc, "callback("+cn+")", envPre, in)
			}
		}
		// effects: hasError may be set by Less; items is permuted
		if hk := tn + ".hasError"; true {
			fs := ex.heapFieldSort(tn, "hasError")
			h := ex.heapGet(ex.st, hk, fs)
			old := Select(h, ref)
			nv := p.FreshConst("hasError_after_sort", SBool)
			ex.st.heap[hk] = Store(h, ref, nv)
			// Less only ever sets the flag
			ex.addFact(Implies(old, nv))
			ex.sortFlag = nv
		}
		ik := tn + ".items"
		fs := ex.heapFieldSort(tn, "items")
		h := ex.heapGet(ex.st, ik, fs)
		old := Select(h, ref)
		si := w.SliceInfoOfSort(fs)
		pf := "sortPerm_" + sortIdent(si.Elem)
		fn := "permuted_" + sortIdent(si.Elem)
		as := SArray(SInt, si.Elem)
		p.DeclareFun(pf, []*Sort{as, SInt, SInt}, SInt)
		p.DeclareFun(fn, []*Sort{as, SInt}, as)
		p.permAxioms[sortIdent(si.Elem)] = si.Elem
		ex.st.heap[ik] = Store(h, ref, w.MkSlice(si.Elem, App(fn, as, w.SlArr(old), w.SlLen(old)), w.SlLen(old), w.SlNil(old)))
		// the field aliases the local slice it was initialised from: that storage is permuted, too
		if lv := c.fieldReg["items"]; lv != nil {
			if lv.Off == nil || lv.Off.Head != "0" {
				ex.unsupp("sort.Stable on an adapter whose items alias the middle of a local slice")
			} else if _, live := ex.st.cells[lv.Reg]; live {
				ex.st.cells[lv.Reg] = App(fn, as, w.SlArr(old), w.SlLen(old))
			}
		}
		ex.st.ghost["sortArr:"+sortIdent(si.Elem)] = w.SlArr(old)
		ex.st.ghost["sortLen"] = w.SlLen(old)
		// order: when Less has a clause  [order] G ==> (result <==> E)  the data ends up ascending and
		// stable with respect to E (evaluated on the final arrangement), provided G holds at the end
		fr.sortOrderFacts(tn, ref, stable, w.SlArr(old), w.SlLen(old), pf)
		return &GVal{Typ: in.Type()}
	}
	ex.unsupp("sort.Stable on an unsupported value")
	return &GVal{Typ: in.Type()}
}

func boolOr(t *Term) *Term {
	if t == nil {
		return TFalse
	}
	return t
}

// sortOrderFacts adds what sort.Stable guarantees about the final arrangement in terms of the
// adapter's Less contract (clause labelled "order").
func (fr *Frame) sortOrderFacts(tn string, ref *Term, stable bool, oldArr, n *Term, pf string) {
	ex := fr.ex
	p := ex.p
	cn := "(*" + tn + ").Less"
	mc := p.contractFor(ex.fname, cn)
	mf := p.funcs[cn]
	if mc == nil || mf == nil || len(mf.Params) != 3 {
		return
	}
	var ord *Clause
	for _, cl := range mc.Ensures {
		if cl.Label == "order" && cl.Kind == "ensures" {
			ord = cl
		}
	}
	if ord == nil {
		return
	}
	e := ord.Expr
	if e.Op != "bin" || e.Name != "==>" || e.Args[1].Op != "bin" || e.Args[1].Name != "<==>" || e.Args[1].Args[0].Op != "id" || e.Args[1].Args[0].Name != "result" {
		ex.unsupp("contract: the [order] clause of %s must have the form  G ==> (result <==> E)", cn)
		return
	}
	guard, rel := e.Args[0], e.Args[1].Args[1]
	I := mkBoundVar("I!o", SInt)
	J := mkBoundVar("J!o", SInt)
	evalAt := func(x *CExpr, i, j *Term) *Term {
		vars := map[string]*GVal{
			mf.Params[0].Name(): {T: ref, Typ: mf.Params[0].Type()},
			mf.Params[1].Name(): {T: i, Typ: types.Typ[types.Int]},
			mf.Params[2].Name(): {T: j, Typ: types.Typ[types.Int]},
		}
		p.aliasParams(mf, vars)
		env := &Env{fr: fr, vars: vars, st: ex.st, old: ex.st, oldVars: vars}
		return fr.evalBool(x, env)
	}
	g := evalAt(guard, I, J)
	inRange := And(Le(IntLit(0), I), Lt(I, J), Lt(J, n))
	permI := App(pf, SInt, oldArr, n, I)
	permJ := App(pf, SInt, oldArr, n, J)
	// ascending: no later element is less than an earlier one
	ex.addFact(mkQuant("forall", []*Term{I, J}, Implies(And(inRange, g), Not(evalAt(rel, J, I)))))
	// stable: elements that changed their relative order are strictly ordered
	if stable {
		ex.addFact(mkQuant("forall", []*Term{I, J}, Implies(And(inRange, g, Gt(permI, permJ)), evalAt(rel, I, J))))
	} else {
		p.assumptions["stdlib: sort.Sort leaves the data ascending with respect to Less (a permutation; not necessarily stable)"] = true
	}
	p.assumptions["stdlib: sort.Stable leaves the data ascending and stable with respect to Less, provided every call of Less answered as its [order] contract clause says"] = true
}
