package main

// Assumed contracts of standard-library functions (the trusted base, DESIGN 2.8).
// Each handler states the contract it assumes; every use is recorded in Prog.assumptions.

import (
	"go/types"

	"golang.org/x/tools/go/ssa"
)

func (fr *Frame) stdlibCall(in *ssa.Call, callee *ssa.Function, args []*GVal) *GVal {
	ex := fr.ex
	w := ex.p.w
	name := callee.String() // e.g. "errors.New", "(*bytes.Buffer).WriteString"
	if callee.Pkg != nil {
		name = callee.Pkg.Pkg.Path() + "." + callee.Name()
		if recv := callee.Signature.Recv(); recv != nil {
			name = callee.String()
		}
	}
	use := func(s string) { ex.p.assumptions["stdlib: "+s] = true }
	strRes := func() *GVal {
		r := ex.p.FreshConst("text", SStr)
		ex.addFact(ex.typeFacts(r, types.Typ[types.String]))
		return &GVal{T: r, Typ: in.Type()}
	}
	slen := func(t *Term) *Term { return App("gs.len", SInt, t) }
	switch name {
	case "errors.New":
		use("errors.New returns a non-nil error that is not a SyntaxError")
		return &GVal{T: App("ErrOther", SErr, ex.p.FreshConst("errid", SInt)), Typ: in.Type()}
	case "fmt.Errorf":
		use("fmt.Errorf returns a non-nil error that is not a SyntaxError; never panics")
		return &GVal{T: App("ErrOther", SErr, ex.p.FreshConst("errid", SInt)), Typ: in.Type()}
	case "fmt.Sprintf", "strconv.Quote", "strconv.QuoteRuneToASCII", "strconv.Itoa":
		use(name + " returns some string; never panics")
		return strRes()
	case "strconv.Atoi":
		use("strconv.Atoi: err==nil implies the result is an int (in range); its error is not a SyntaxError of this package")
		r := ex.p.FreshConst("atoi", SInt)
		ex.addFact(ex.typeFacts(r, types.Typ[types.Int]))
		okc := ex.p.FreshConst("atoi_ok", SBool)
		e := Ite(okc, mk("ErrNil", SErr), App("ErrOther", SErr, ex.p.FreshConst("errid", SInt)))
		p := ex.p
		p.DeclareFun("atoiVal", []*Sort{SStr}, SInt)
		p.DeclareFun("atoiOK", []*Sort{SStr}, SBool)
		s := fr.term(args[0])
		ex.addFact(And(Eq(okc, App("atoiOK", SBool, s)), Implies(okc, Eq(r, App("atoiVal", SInt, s))), Implies(Not(okc), Eq(r, IntLit(0)))))
		return &GVal{Tuple: []*GVal{{T: r, Typ: types.Typ[types.Int]}, {T: e, Typ: errType()}}, Typ: in.Type()}
	case "strings.Repeat":
		use("strings.Repeat panics iff count < 0; len(result) == len(s)*count")
		cnt := fr.term(args[1])
		fr.oblige("safe", "strings.Repeat-count-non-negative", []string{"C05", "C17"}, Le(IntLit(0), cnt), in.Pos())
		s := fr.term(args[0])
		ex.p.DeclareFun("gs.repeat", []*Sort{SStr, SInt}, SStr)
		r := App("gs.repeat", SStr, s, cnt)
		ex.addFact(Implies(Eq(slen(s), IntLit(1)), Eq(slen(r), cnt)))
		ex.addFact(Le(IntLit(0), slen(r)))
		return &GVal{T: r, Typ: in.Type()}
	case "strings.Replace":
		use("strings.Replace(s, old, new, n) == str.replace(s, old, new) for n < 0; never panics")
		ex.p.DeclareFun("gs.replaceAll", []*Sort{SStr, SStr, SStr}, SStr)
		r := App("gs.replaceAll", SStr, fr.term(args[0]), fr.term(args[1]), fr.term(args[2]))
		ex.addFact(Le(IntLit(0), slen(r)))
		return &GVal{T: r, Typ: in.Type()}
	case "strings.HasPrefix", "strings.HasSuffix", "strings.Contains":
		use(name + " is a total predicate on two strings")
		fn := map[string]string{"strings.HasPrefix": "gs.prefixof", "strings.HasSuffix": "gs.suffixof", "strings.Contains": "gs.contains"}[name]
		ex.p.DeclareFun(fn, []*Sort{SStr, SStr}, SBool)
		return &GVal{T: App(fn, SBool, fr.term(args[0]), fr.term(args[1])), Typ: in.Type()}
	case "strings.Join":
		use("strings.Join is a total function of the element sequence and the separator")
		a := fr.term(args[0])
		ex.p.DeclareFun("gs.join", []*Sort{a.S, SStr}, SStr)
		r := App("gs.join", SStr, a, fr.term(args[1]))
		ex.addFact(Le(IntLit(0), slen(r)))
		return &GVal{T: r, Typ: in.Type()}
	case "unicode/utf8.DecodeRuneInString":
		use("utf8.DecodeRuneInString: empty -> (RuneError,0); else 1<=w<=4, w<=len(s); r<0x80 iff s[0]<0x80 and then r==s[0], w==1; r>=0")
		s := fr.term(args[0])
		ex.p.DeclareFun("utf8.rune", []*Sort{SStr}, SBV32)
		ex.p.DeclareFun("utf8.width", []*Sort{SStr}, SInt)
		r := App("utf8.rune", SBV32, s)
		wd := App("utf8.width", SInt, s)
		b0 := App("gs.at", SBV8, s, IntLit(0))
		ascii := App("bvult", SBool, b0, BVLit(0x80, 8))
		ex.addFact(And(
			Implies(Eq(slen(s), IntLit(0)), And(Eq(wd, IntLit(0)), Eq(r, BVLit(0xFFFD, 32)))),
			Implies(Lt(IntLit(0), slen(s)), And(Le(IntLit(1), wd), Le(wd, IntLit(4)), Le(wd, slen(s)))),
			Implies(And(Lt(IntLit(0), slen(s)), ascii), And(Eq(wd, IntLit(1)), Eq(r, bvResize(b0, 32, false)))),
			Implies(And(Lt(IntLit(0), slen(s)), Not(ascii)), App("bvsge", SBool, r, BVLit(0x80, 32))),
			App("bvsge", SBool, r, BVLit(0, 32)), App("bvsle", SBool, r, BVLit(0x10FFFF, 32)),
		))
		return &GVal{Tuple: []*GVal{{T: r, Typ: types.Typ[types.Int32]}, {T: wd, Typ: types.Typ[types.Int]}}, Typ: in.Type()}
	case "unicode/utf8.RuneCountInString":
		use("utf8.RuneCountInString: 0 <= n <= len(s)")
		s := fr.term(args[0])
		ex.p.DeclareFun("utf8.count", []*Sort{SStr}, SInt)
		r := App("utf8.count", SInt, s)
		ex.addFact(And(Le(IntLit(0), r), Le(r, slen(s))))
		return &GVal{T: r, Typ: in.Type()}
	case "unicode.ToUpper":
		use("unicode.ToUpper is total")
		ex.p.DeclareFun("unicode.upper", []*Sort{SBV32}, SBV32)
		return &GVal{T: App("unicode.upper", SBV32, fr.term(args[0])), Typ: in.Type()}
	case "math.Abs", "math.Ceil", "math.Floor":
		use(name + " is the IEEE-754 operation")
		x := fr.term(args[0])
		var r *Term
		switch name {
		case "math.Abs":
			r = App("fp.abs", SF64, x)
		case "math.Ceil":
			r = App("fp.roundToIntegral", SF64, mk("RTP", mkSort("RoundingMode")), x)
		default:
			r = App("fp.roundToIntegral", SF64, mk("RTN", mkSort("RoundingMode")), x)
		}
		return &GVal{T: r, Typ: in.Type()}
	case "(*bytes.Buffer).WriteString", "(*bytes.Buffer).String", "(*bytes.Buffer).Reset":
		use("bytes.Buffer: WriteString appends, String returns the contents, Reset empties; modelled as a string-valued field")
		p := fr.asPtr(args[0], callee.Params[0].Type(), in.Pos())
		cur := fr.bufRead(p)
		switch callee.Name() {
		case "WriteString":
			s := fr.term(args[1])
			r := App("gs.cat", SStr, cur, s)
			ex.addFact(Eq(slen(r), Add(slen(cur), slen(s))))
			fr.bufWrite(p, r, in)
			return &GVal{Tuple: []*GVal{{T: slen(s), Typ: types.Typ[types.Int]}, {T: mk("ErrNil", SErr), Typ: errType()}}, Typ: in.Type()}
		case "String":
			return &GVal{T: cur, Typ: in.Type()}
		default:
			fr.bufWrite(p, w.StrLit(""), in)
			return &GVal{Typ: in.Type()}
		}
	}
	if g := fr.stdlibCall2(in, callee, name, args); g != nil {
		return g
	}
	ex.unsupp("call to %s has no assumed contract", name)
	return fr.havocResult(in.Type(), callee.Name())
}

func errType() types.Type { return types.Universe.Lookup("error").Type() }

// bytes.Buffer is modelled as a Str: struct sort S_bytes_Buffer is replaced by a string content cell.
func (fr *Frame) bufRead(p *Ptr) *Term {
	t := fr.load(p)
	if t.S == SStr {
		return t
	}
	// the buffer struct: use an uninterpreted projection to its contents
	fr.ex.p.DeclareFun("buf.contents", []*Sort{t.S}, SStr)
	return App("buf.contents", SStr, t)
}

func (fr *Frame) bufWrite(p *Ptr, v *Term, in *ssa.Call) {
	ex := fr.ex
	t := fr.load(p)
	if t.S == SStr {
		fr.store(p, v, in.Pos())
		return
	}
	ex.p.DeclareFun("buf.make", []*Sort{SStr}, t.S)
	ex.p.DeclareFun("buf.contents", []*Sort{t.S}, SStr)
	nb := App("buf.make", t.S, v)
	ex.addFact(Eq(App("buf.contents", SStr, nb), v))
	fr.store(p, nb, in.Pos())
}

func (fr *Frame) stdlibCall2(in *ssa.Call, callee *ssa.Function, name string, args []*GVal) *GVal {
	return nil
}
