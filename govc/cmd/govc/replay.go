package main

// Replay files: what failed, the solver's answer, and (where a model exists) a
// reproduction attempt on the real code.

import (
	"time"
	"fmt"
	"go/types"
	"os"
	"os/exec"
	"path/filepath"
	"strings"
)

func (p *Prog) writeReplay(replayDir, id string, o *Obligation, qdir string) string {
	os.MkdirAll(replayDir, 0o755)
	path := filepath.Join(replayDir, sanitize(o.Name)+".json")
	rec := map[string]interface{}{
		"property":   id,
		"obligation": o.Name,
		"function":   o.Func,
		"kind":       o.Kind,
		"where":      o.Where,
		"verdict":    o.Verdict,
		"solver":     o.Solver,
		"solver_output": firstLines(o.Output, 40),
		"meaning":    verdictMeaning(o.Verdict),
		"reproduced_on_real_code": false,
	}
	if o.Facts != nil && o.NFacts <= len(o.Facts) {
		q := p.BuildQuery(o, nil)
		qpath := filepath.Join(replayDir, sanitize(o.Name)+".smt2")
		os.WriteFile(qpath, []byte(q), 0o644)
		rec["query_file"] = qpath
	}
	// replaying is bounded: at most 90 seconds per counterexample and four minutes per check run
	if o.Verdict == "sat" && o.ex != nil && time.Since(p.replayStart) < 4*time.Minute || o.Verdict == "sat" && o.ex != nil && p.replayStart.IsZero() {
		if p.replayStart.IsZero() {
			p.replayStart = time.Now()
		}
		if rp := p.tryReplay(o, replayDir); rp != nil {
			for k, v := range rp {
				rec[k] = v
			}
		}
	}
	writeJSON(path, rec)
	return path
}

func verdictMeaning(v string) string {
	switch v {
	case "sat":
		return "the negated obligation is satisfiable: a candidate counterexample exists"
	case "unknown", "timeout":
		return "no solver could discharge the obligation within the time limit (proof failure; not by itself a failing input)"
	case "error":
		return "the solvers rejected the query (machinery error)"
	}
	return v
}

func cmdReplay(args []string) int {
	if len(args) < 1 {
		fmt.Println("usage: govc replay <path.json>")
		return 2
	}
	data, err := os.ReadFile(args[0])
	if err != nil {
		fmt.Println(err)
		return 2
	}
	fmt.Println(string(data))
	if strings.Contains(string(data), `"reproduced_on_real_code": true`) {
		return 1
	}
	return 0
}

// tryReplay rebuilds concrete inputs from a model, runs the real function in an
// in-package test injected with `go test -overlay` (the repository is not
// written), and evaluates panics and the function's own contract natively.
func (p *Prog) tryReplay(o *Obligation, replayDir string) map[string]interface{} {
	ex := o.ex
	fn := ex.fn
	if fn.Pkg != p.pkg {
		return map[string]interface{}{"replay_note": "function outside package jmespath: no in-package replay"}
	}
	scratch, err := os.MkdirTemp("", "govc-replay")
	if err != nil {
		return nil
	}
	if os.Getenv("GOVC_KEEP_REPLAY") == "" {
		defer os.RemoveAll(scratch)
	} else {
		fmt.Fprintln(os.Stderr, "replay scratch:", scratch)
	}
	asserts := append([]*Term{}, o.Facts[:o.NFacts]...)
	asserts = append(asserts, Not(o.Goal))
	pb := &prober{p: p, asserts: asserts, known: map[int]string{}, dir: scratch, deadline: time.Now().Add(90 * time.Second)}
	// prefer a witness in the first iteration of every loop (reachable from the inputs)
	if len(ex.firstIter) > 0 {
		pb.preferFirst(ex.firstIter)
	}
	fr := ex.newFrame(fn, TTrue, "")
	b := &builder{pb: pb, fr: fr, w: p.w, ok: true, maxLen: 3}
	saved := ex.st
	ex.st = ex.entry
	defer func() { ex.st = saved }()
	var decls []string
	var argNames []string
	recvExpr := ""
	for i, prm := range fn.Params {
		g := ex.entryParams[prm.Name()]
		name := "g_" + prm.Name()
		if prm.Name() == "_" || prm.Name() == "" {
			name = fmt.Sprintf("govcArg%d", i)
		}
		var lit string
		if pt, ok := prm.Type().Underlying().(*types.Pointer); ok {
			n, isN := pt.Elem().(*types.Named)
			st, isS := pt.Elem().Underlying().(*types.Struct)
			if !isN || !isS {
				b.ok = false
				b.notes = append(b.notes, "pointer parameter "+name)
				continue
			}
			var fs []string
			for k := 0; k < st.NumFields(); k++ {
				f := st.Field(k)
				h := ex.entry.heap[n.Obj().Name()+"."+f.Name()]
				if h == nil {
					continue
				}
				if f.Name() == "buf" || f.Name() == "fCall" || f.Name() == "intr" || f.Name() == "functionTable" {
					continue
				}
				fs = append(fs, f.Name()+": "+b.goLit(Select(h, g.T), f.Type(), 1))
			}
			lit = "&" + n.Obj().Name() + "{" + strings.Join(fs, ", ") + "}"
			if n.Obj().Name() == "treeInterpreter" {
				lit = "newInterpreter()"
			}
			if n.Obj().Name() == "functionCaller" {
				lit = "newFunctionCaller()"
			}
		} else {
			lit = b.goLit(g.T, prm.Type(), 0)
		}
		decls = append(decls, fmt.Sprintf("\t%s := %s\n\t_ = %s", name, lit, name))
		if i == 0 && fn.Signature.Recv() != nil {
			recvExpr = name
		} else {
			argNames = append(argNames, name)
		}
	}
	out := map[string]interface{}{"model_solver": pb.solver, "model_inputs": decls}
	if !b.ok {
		out["replay_note"] = "model could not be turned into concrete inputs: " + strings.Join(b.notes, "; ")
		return out
	}
	rn := resultNames(fn)
	for i := range rn {
		rn[i] = "g_" + rn[i]
	}
	callee := fn.Name()
	if recvExpr != "" {
		callee = recvExpr + "." + fn.Name()
	}
	call := callee + "(" + strings.Join(argNames, ", ") + ")"
	variadicFix := ""
	_ = variadicFix
	gen := func(withClauses bool, skip map[int]bool) string {
		var sb strings.Builder
		sb.WriteString("package jmespath\n\nimport (\n\t\"encoding/json\"\n\t\"errors\"\n\t\"fmt\"\n\t\"math\"\n\t\"reflect\"\n\t\"strings\"\n\t\"testing\"\n\t\"unicode/utf8\"\n)\n\n")
		sb.WriteString("var _ = errors.New\nvar _ = math.Abs\nvar _ = reflect.DeepEqual\nvar _ = strings.Replace\nvar _ = json.Valid\nvar _ = utf8.ValidRune\n")
		sb.WriteString(replayHelpers)
		sb.WriteString("\nfunc TestGovcReplay(t *testing.T) {\n")
		for _, d := range decls {
			sb.WriteString(d + "\n")
		}
		type cc struct {
			idx   int
			label string
			expr  string
		}
		var ens []cc
		if withClauses && ex.c != nil {
			for i, cl := range ex.c.Requires {
				if skip[1000+i] {
					continue
				}
				if g, pre, ok := compileClause(cl.Expr, p); ok && len(pre) == 0 {
					fmt.Fprintf(&sb, "\tfmt.Printf(\"GOVC-REPLAY requires %d %%v\\n\", govcClause(func() bool { return %s })) // clause R%d\n", i+1, g, i)
				}
			}
			// snapshots for old(...) in the postconditions
			for i, cl := range ex.c.Ensures {
				if skip[i] || cl.Kind == "assumes" {
					continue
				}
				g, pre, ok := compileClause(cl.Expr, p)
				if !ok {
					continue
				}
				// make snapshot names unique per clause
				for k, st := range pre {
					old := fmt.Sprintf("govcOld%d", k+1)
					nw := fmt.Sprintf("govcOld_%d_%d", i, k+1)
					st = strings.ReplaceAll(st, old+" ", nw+" ")
					st = strings.ReplaceAll(st, old+";", nw+";")
					g = strings.ReplaceAll(g, old, nw)
					fmt.Fprintf(&sb, "\t%s // clause E%d\n", st, i)
				}
				ens = append(ens, cc{i, clauseLabel2(cl, "ensures", i), g})
			}
		}
		for _, r := range rn {
			fmt.Fprintf(&sb, "\tvar %s %s\n\t_ = %s\n", r, "interface{}", r)
		}
		sb.WriteString("\tpanicked := true\n\tvar pv interface{}\n\tfunc() {\n\t\tdefer func() { pv = recover() }()\n")
		if len(rn) > 0 {
			var tmp []string
			for i := range rn {
				tmp = append(tmp, fmt.Sprintf("govcR%d", i))
			}
			fmt.Fprintf(&sb, "\t\t%s := %s\n", strings.Join(tmp, ", "), call)
			for i, r := range rn {
				fmt.Fprintf(&sb, "\t\t%s = govcR%d\n", r, i)
			}
		} else {
			sb.WriteString("\t\t" + call + "\n")
		}
		sb.WriteString("\t\tpanicked = false\n\t}()\n")
		sb.WriteString("\tif panicked {\n\t\tfmt.Printf(\"GOVC-REPLAY panic %v\\n\", pv)\n\t\treturn\n\t}\n\tfmt.Printf(\"GOVC-REPLAY returned\\n\")\n")
		if withClauses && ex.c != nil {
			// results with their static types for the contract expressions
			sb.WriteString("\t{\n")
			res := fn.Signature.Results()
			for i, r := range rn {
				ts := typeStr(res.At(i).Type())
				if ts == "error" {
					fmt.Fprintf(&sb, "\t\tvar %s_ error\n\t\tif %s != nil {\n\t\t\t%s_ = %s.(error)\n\t\t}\n\t\t%s := %s_\n\t\t_ = %s\n", r, r, r, r, r, r, r)
				} else if ts == "interface{}" {
					fmt.Fprintf(&sb, "\t\t%s := %s\n\t\t_ = %s\n", r, r, r)
				} else {
					fmt.Fprintf(&sb, "\t\t%s, _ := %s.(%s)\n\t\t_ = %s\n", r, r, ts, r)
				}
			}
			for _, e := range ens {
				fmt.Fprintf(&sb, "\t\tfmt.Printf(\"GOVC-REPLAY ensures %d [%s] %%v\\n\", govcClause(func() bool { return %s })) // clause E%d\n", e.idx+1, e.label, e.expr, e.idx)
			}
			sb.WriteString("\t}\n")
		}
		sb.WriteString("}\n")
		return sb.String()
	}
	run := func(src string) (string, bool) {
		tf := filepath.Join(scratch, "zz_govc_replay_test.go")
		os.WriteFile(tf, []byte(src), 0o644)
		gf := filepath.Join(scratch, "zz_govc_generics_test.go")
		os.WriteFile(gf, []byte(replayGenerics), 0o644)
		ov := filepath.Join(scratch, "overlay.json")
		os.WriteFile(ov, []byte(fmt.Sprintf(`{"Replace": {%q: %q, %q: %q}}`, filepath.Join(p.repo, "zz_govc_replay_test.go"), tf, filepath.Join(p.repo, "zz_govc_generics_test.go"), gf)), 0o644)
		cmd := exec.Command("go", "test", "-overlay", ov, "-tags", "verif", "-vet=off", "-timeout", "60s", "-count=1", "-v", "-run", "^TestGovcReplay$", ".")
		cmd.Dir = p.repo
		cmd.Env = append(os.Environ(), "GOFLAGS=-mod=mod", "GOPROXY=off", "GOSUMDB=off", "GOTOOLCHAIN=local")
		outb, _ := cmd.CombinedOutput()
		text := string(outb)
		return text, strings.Contains(text, "GOVC-REPLAY")
	}
	src := gen(true, nil)
	text, ok := run(src)
	if !ok {
		// clauses that do not compile natively (type mismatches of the translation) are dropped and the
		// test is built once more; the compiler names the lines, each clause carries its tag in a comment
		skip := map[int]bool{}
		lines := strings.Split(src, "\n")
		for _, l := range strings.Split(text, "\n") {
			if i := strings.Index(l, "zz_govc_replay_test.go:"); i >= 0 {
				var ln int
				fmt.Sscanf(l[i+len("zz_govc_replay_test.go:"):], "%d", &ln)
				if ln >= 1 && ln <= len(lines) {
					if k := strings.LastIndex(lines[ln-1], "// clause "); k >= 0 {
						var kind byte
						var idx int
						fmt.Sscanf(lines[ln-1][k+len("// clause "):], "%c%d", &kind, &idx)
						if kind == 'R' {
							skip[1000+idx] = true
						} else {
							skip[idx] = true
						}
					}
				}
			}
		}
		if len(skip) > 0 {
			src = gen(true, skip)
			text, ok = run(src)
		}
	}
	if !ok {
		src = gen(false, nil)
		text, ok = run(src)
	}
	out["replay_test_source"] = src
	var lines []string
	for _, l := range strings.Split(text, "\n") {
		if strings.HasPrefix(l, "GOVC-REPLAY") {
			lines = append(lines, l)
		}
	}
	out["replay_output"] = lines
	if !ok {
		out["replay_note"] = "replay test did not build or run: " + firstLines(text, 12)
		return out
	}
	reqOK := true
	reproduced := false
	why := ""
	for _, l := range lines {
		switch {
		case strings.HasPrefix(l, "GOVC-REPLAY requires") && strings.HasSuffix(l, "false"):
			reqOK = false
		case strings.HasPrefix(l, "GOVC-REPLAY panic"):
			reproduced = true
			why = "the real function panics on the model input: " + strings.TrimPrefix(l, "GOVC-REPLAY panic ")
		case strings.HasPrefix(l, "GOVC-REPLAY ensures") && strings.HasSuffix(l, "false"):
			reproduced = true
			why = "the real function violates its contract clause on the model input: " + l
		}
	}
	if !reqOK {
		reproduced = false
		why = "model input does not satisfy the function's precondition natively"
	}
	out["reproduced_on_real_code"] = reproduced
	out["replay_result"] = why
	return out
}

// ---- native evaluation of contract clauses at replay ----

// goCtx collects what a compiled clause needs besides its expression: snapshots of old(...)
// sub-expressions, taken before the call.
type goCtx struct {
	p    *Prog
	pre  []string // statements executed before the call
	n    int
	vars map[string]string // bound variables (quantifiers, macro parameters)
}

// cexprGo compiles a contract expression to Go source (native evaluation at replay).
// ok is false when the expression uses something that has no native counterpart (ghost state,
// opaque Go values ...); such a clause is simply not evaluated at replay.
func cexprGo(e *CExpr, p *Prog) (string, bool) {
	c := &goCtx{p: p, vars: map[string]string{}}
	g, ok := c.compile(e)
	if len(c.pre) > 0 {
		return "", false // needs snapshots: use compileClause
	}
	return g, ok
}

func (c *goCtx) compile(e *CExpr) (string, bool) {
	p := c.p
	switch e.Op {
	case "int", "bool":
		return e.Name, true
	case "nil":
		return "nil", true
	case "str":
		return fmt.Sprintf("%q", e.Name), true
	case "rune":
		return "rune(" + e.Name + ")", true
	case "id":
		if v, ok := c.vars[e.Name]; ok {
			return v, true
		}
		if strings.HasPrefix(e.Name, "\\") {
			return "", false
		}
		switch e.Name {
		case "MaxInt":
			return "math.MaxInt64", true
		case "MinInt":
			return "math.MinInt64", true
		}
		if obj := p.pkg.Pkg.Scope().Lookup(e.Name); obj != nil {
			if _, isConst := obj.(*types.Const); isConst {
				return e.Name, true
			}
			if _, isVar := obj.(*types.Var); isVar {
				return e.Name, true
			}
		}
		return "g_" + e.Name, true
	case "old":
		a, ok := c.compile(e.Args[0])
		if !ok {
			return "", false
		}
		c.n++
		name := fmt.Sprintf("govcOld%d", c.n)
		c.pre = append(c.pre, fmt.Sprintf("%s := %s; _ = %s", name, a, name))
		return name, true
	case "field":
		a, ok := c.compile(e.Args[0])
		if e.Args[0].Op == "id" && (e.Name == "Expression" || e.Name == "Offset" || e.Name == "msg") {
			return "govcSE(" + a + ")." + e.Name, ok
		}
		return a + "." + e.Name, ok
	case "index":
		a, ok1 := c.compile(e.Args[0])
		b, ok2 := c.compile(e.Args[1])
		return a + "[" + b + "]", ok1 && ok2
	case "un":
		a, ok := c.compile(e.Args[0])
		return "(" + e.Name + a + ")", ok
	case "cond":
		a, ok1 := c.compile(e.Args[0])
		b, ok2 := c.compile(e.Args[1])
		d, ok3 := c.compile(e.Args[2])
		return "govcIf(" + a + ", func() interface{} { return " + b + " }, func() interface{} { return " + d + " })", ok1 && ok2 && ok3
	case "forall", "exists":
		return c.quant(e)
	case "bin":
		a, ok1 := c.compile(e.Args[0])
		b, ok2 := c.compile(e.Args[1])
		if !ok1 || !ok2 {
			return "", false
		}
		switch e.Name {
		case "==>":
			return "(!(" + a + ") || (" + b + "))", true
		case "<==>":
			return "((" + a + ") == (" + b + "))", true
		case "==":
			return "govcEq(" + a + ", " + b + ")", true
		case "!=":
			return "!govcEq(" + a + ", " + b + ")", true
		}
		return "(" + a + " " + e.Name + " " + b + ")", true
	case "call":
		return c.call(e)
	}
	return "", false
}

// quant: bounded quantifiers only -  forall k int :: lo <= k && k < hi [&& more] ==> body,
// and  forall k string :: mapHas(m, k) ==> body.
func (c *goCtx) quant(e *CExpr) (string, bool) {
	body := e.Args[0]
	if body.Op != "bin" || body.Name != "==>" {
		if body.Op == "forall" || body.Op == "exists" {
			return "", false
		}
		return "", false
	}
	var conj []*CExpr
	var flat func(x *CExpr)
	flat = func(x *CExpr) {
		if x.Op == "bin" && x.Name == "&&" {
			flat(x.Args[0])
			flat(x.Args[1])
			return
		}
		conj = append(conj, x)
	}
	flat(body.Args[0])
	isVar := func(x *CExpr) bool { return x.Op == "id" && x.Name == e.Var }
	v := fmt.Sprintf("govcQ%d", c.n)
	c.n++
	saved, had := c.vars[e.Var]
	c.vars[e.Var] = v
	defer func() {
		if had {
			c.vars[e.Var] = saved
		} else {
			delete(c.vars, e.Var)
		}
	}()
	var lo, hi string
	var rest []string
	mapOf := ""
	for _, x := range conj {
		if x.Op == "bin" && (x.Name == "<=" || x.Name == "<") && isVar(x.Args[1]) && lo == "" {
			delete(c.vars, e.Var)
			a, ok := c.compile(x.Args[0])
			c.vars[e.Var] = v
			if !ok {
				return "", false
			}
			lo = a
			if x.Name == "<" {
				lo = "(" + a + ") + 1"
			}
			continue
		}
		if x.Op == "bin" && (x.Name == "<" || x.Name == "<=") && isVar(x.Args[0]) && hi == "" {
			delete(c.vars, e.Var)
			a, ok := c.compile(x.Args[1])
			c.vars[e.Var] = v
			if !ok {
				return "", false
			}
			hi = a
			if x.Name == "<=" {
				hi = "(" + a + ") + 1"
			}
			continue
		}
		if x.Op == "call" && x.Name == "mapHas" && len(x.Args) == 2 && isVar(x.Args[1]) && mapOf == "" {
			a, ok := c.compile(x.Args[0])
			if !ok {
				return "", false
			}
			mapOf = a
			continue
		}
		a, ok := c.compile(x)
		if !ok {
			return "", false
		}
		rest = append(rest, a)
	}
	b, ok := c.compile(body.Args[1])
	if !ok {
		return "", false
	}
	cond := "true"
	if len(rest) > 0 {
		cond = strings.Join(rest, " && ")
	}
	want, other := "false", "true"
	test := fmt.Sprintf("(%s) && !(%s)", cond, b)
	if e.Op == "exists" {
		return "", false
	}
	switch {
	case mapOf != "":
		return fmt.Sprintf("func() bool { for %s := range %s { if %s { return %s } }; return %s }()", v, mapOf, test, want, other), true
	case lo != "" && hi != "":
		return fmt.Sprintf("func() bool { for %s := int(%s); %s < int(%s); %s++ { if %s { return %s } }; return %s }()", v, lo, v, hi, v, test, want, other), true
	}
	return "", false
}

func (c *goCtx) call(e *CExpr) (string, bool) {
	p := c.p
	if m, ok := p.cs.Macros[e.Name]; ok && len(m.Params) == len(e.Args) {
		// macro: compile the body with the parameters bound to the compiled arguments
		saved := map[string]string{}
		had := map[string]bool{}
		var as []string
		for _, x := range e.Args {
			a, ok := c.compile(x)
			if !ok {
				return "", false
			}
			as = append(as, "("+a+")")
		}
		for i, prm := range m.Params {
			saved[prm], had[prm] = c.vars[prm]
			c.vars[prm] = as[i]
		}
		body, ok := c.compile(m.Body)
		for _, prm := range m.Params {
			if had[prm] {
				c.vars[prm] = saved[prm]
			} else {
				delete(c.vars, prm)
			}
		}
		return "(" + body + ")", ok
	}
	var as []string
	for _, x := range e.Args {
		a, ok := c.compile(x)
		if !ok {
			return "", false
		}
		as = append(as, a)
	}
	arg := func(i int) string {
		if i < len(as) {
			return as[i]
		}
		return "nil"
	}
	switch e.Name {
	case "len":
		return "len(" + arg(0) + ")", true
	case "isNil":
		return "govcIsNil(" + arg(0) + ")", true
	case "same":
		return "govcEq(" + arg(0) + ", " + arg(1) + ")", true
	case "fst", "snd", "thd":
		// projections of a spec function with several results
		if len(e.Args) == 1 && e.Args[0].Op == "call" {
			if sd, ok := p.specs[e.Args[0].Name]; ok && len(sd.Tuple) >= 2 && len(sd.Tuple) <= 3 {
				return fmt.Sprintf("govc%s%d(%s)", strings.Title(e.Name), len(sd.Tuple), arg(0)), true
			}
		}
		return "", false
	case "isNum", "isStr", "isBool", "isArr", "isObj", "isExpRef", "isIntr", "isGo", "isInt", "isTok", "isIntPtrs":
		return fmt.Sprintf("govcIs(%q, %s)", e.Name, arg(0)), true
	case "numOf":
		return "(" + arg(0) + ").(float64)", true
	case "strOf":
		return "(" + arg(0) + ").(string)", true
	case "boolOf":
		return "(" + arg(0) + ").(bool)", true
	case "intOf":
		return "(" + arg(0) + ").(int)", true
	case "tokOf":
		return "(" + arg(0) + ").(tokType)", true
	case "refOf":
		return "(" + arg(0) + ").(expRef).ref", true
	case "intrOf":
		return "(" + arg(0) + ").(*treeInterpreter)", true
	case "arrOf":
		return "govcArr(" + arg(0) + ")", true
	case "objOf":
		return "govcObj(" + arg(0) + ")", true
	case "arrLen":
		return "len(govcArr(" + arg(0) + "))", true
	case "arrAt":
		return "govcArr(" + arg(0) + ")[" + arg(1) + "]", true
	case "objSize":
		return "len(govcObj(" + arg(0) + "))", true
	case "objHas":
		return "govcHas(govcObj(" + arg(0) + "), " + arg(1) + ")", true
	case "objAt":
		return "govcObj(" + arg(0) + ")[" + arg(1) + "]", true
	case "mapHas":
		return "govcHas(" + arg(0) + ", " + arg(1) + ")", true
	case "mkStr", "mkNum", "mkBool":
		return "interface{}(" + arg(0) + ")", true
	case "mkArr":
		return "interface{}(" + arg(0) + ")", true
	case "kid":
		return "(" + arg(0) + ").children[" + arg(1) + "]", true
	case "nkids":
		return "len((" + arg(0) + ").children)", true
	case "kindOf":
		return "govcKind(" + arg(0) + ")", true
	case "finite":
		return "(!math.IsNaN(" + arg(0) + ") && !math.IsInf(" + arg(0) + ", 0))", true
	case "isNaN":
		return "math.IsNaN(" + arg(0) + ")", true
	case "isInf":
		return "math.IsInf(" + arg(0) + ", 0)", true
	case "inRange":
		return "true", true
	case "isSyntaxError":
		return "govcIsSE(" + arg(0) + ")", true
	case "substr":
		return "(" + arg(0) + ")[" + arg(1) + ":" + arg(2) + "]", true
	case "byteAt":
		return "(" + arg(0) + ")[" + arg(1) + "]", true
	case "toRune":
		return "rune(" + arg(0) + ")", true
	case "toByte":
		return "byte(" + arg(0) + ")", true
	case "runesOf":
		return "[]rune(" + arg(0) + ")", true
	case "bytesOf":
		return "[]byte(" + arg(0) + ")", true
	case "strOfBytes":
		return "string(" + arg(0) + ")", true
	case "validRune":
		return "utf8.ValidRune(" + arg(0) + ")", true
	case "replaceAll":
		return "strings.Replace(" + arg(0) + ", " + arg(1) + ", " + arg(2) + ", -1)", true
	case "jsonDecodeStrOf":
		return "govcJSONStr(" + arg(0) + ")", true
	case "jsonDecodeOf":
		return "govcJSONVal(" + arg(0) + ")", true
	case "jsonValid":
		return "json.Valid(" + arg(0) + ")", true
	case "bp":
		return "bindingPowers[" + arg(0) + "]", true
	case "theFunctionTable":
		return "newFunctionCaller().functionTable", true
	case "emptyObj":
		return "map[string]interface{}{}", true
	case "emptyStrs":
		return "[]string{}", true
	case "nilNodes":
		return "[]ASTNode(nil)", true
	}
	if _, ok := p.specs[e.Name]; ok {
		if obj := p.pkg.Pkg.Scope().Lookup(e.Name); obj != nil {
			return e.Name + "(" + strings.Join(as, ", ") + ")", true
		}
	}
	return "", false
}

// compileClause: the Go source of a clause plus the snapshot statements it needs before the call.
func compileClause(e *CExpr, p *Prog) (expr string, pre []string, ok bool) {
	c := &goCtx{p: p, vars: map[string]string{}}
	g, ok := c.compile(e)
	return g, c.pre, ok
}

// replayHelpers: support code of the injected test file.
const replayHelpers = `
func govcIntPtr(n int) *int { return &n }
func govcEq(a, b interface{}) bool {
	if fa, ok := a.(float64); ok {
		if fb, ok := b.(float64); ok {
			return fa == fb || (math.IsNaN(fa) && math.IsNaN(fb))
		}
	}
	if ea, ok := a.(error); ok && b == nil {
		return ea == nil
	}
	return reflect.DeepEqual(a, b) || (govcIsNil(a) && govcIsNil(b) && reflect.TypeOf(a) == reflect.TypeOf(b))
}
func govcIsNil(a interface{}) bool {
	if a == nil {
		return true
	}
	v := reflect.ValueOf(a)
	switch v.Kind() {
	case reflect.Slice, reflect.Map, reflect.Ptr, reflect.Interface:
		return v.IsNil()
	}
	return false
}
func govcIs(what string, v interface{}) bool {
	switch what {
	case "isNum":
		_, ok := v.(float64)
		return ok
	case "isStr":
		_, ok := v.(string)
		return ok
	case "isBool":
		_, ok := v.(bool)
		return ok
	case "isArr":
		_, ok := v.([]interface{})
		return ok
	case "isObj":
		_, ok := v.(map[string]interface{})
		return ok
	case "isExpRef":
		_, ok := v.(expRef)
		return ok
	case "isIntr":
		_, ok := v.(*treeInterpreter)
		return ok
	case "isInt":
		_, ok := v.(int)
		return ok
	case "isTok":
		_, ok := v.(tokType)
		return ok
	case "isIntPtrs":
		_, ok := v.([]*int)
		return ok
	case "isGo":
		switch v.(type) {
		case nil, bool, float64, string, []interface{}, map[string]interface{}, expRef, *treeInterpreter, int, tokType, []*int:
			return false
		}
		return true
	}
	return false
}
func govcArr(v interface{}) []interface{} { a, _ := v.([]interface{}); return a }
func govcObj(v interface{}) map[string]interface{} { m, _ := v.(map[string]interface{}); return m }
func govcHas(m interface{}, k interface{}) bool {
	v := reflect.ValueOf(m)
	if v.Kind() != reflect.Map {
		return false
	}
	return v.MapIndex(reflect.ValueOf(k)).IsValid()
}
func govcKind(v interface{}) int {
	if v == nil {
		return 0
	}
	return int(reflect.TypeOf(v).Kind())
}
func govcIsSE(e interface{}) bool { _, ok := e.(SyntaxError); return ok }
func govcSE(e interface{}) SyntaxError { s, _ := e.(SyntaxError); return s }
func govcJSONStr(b []byte) string { var s string; json.Unmarshal(b, &s); return s }
func govcJSONVal(b []byte) interface{} { var v interface{}; json.Unmarshal(b, &v); return v }
func govcIf(c bool, a, b func() interface{}) interface{} {
	if c {
		return a()
	}
	return b()
}
func govcClause(f func() bool) (res string) {
	defer func() {
		if r := recover(); r != nil {
			res = fmt.Sprintf("not-evaluated (%v)", r)
		}
	}()
	return fmt.Sprint(f())
}
`

// generic tuple projections live in their own file: the module's language version predates generics
const replayGenerics = `//go:build go1.18

package jmespath

func govcFst2[A, B any](a A, b B) A       { return a }
func govcSnd2[A, B any](a A, b B) B       { return b }
func govcFst3[A, B, C any](a A, b B, c C) A { return a }
func govcSnd3[A, B, C any](a A, b B, c C) B { return b }
func govcThd3[A, B, C any](a A, b B, c C) C { return c }
`
