package main

// Replay files: what failed, the solver's answer, and (where a model exists) a
// reproduction attempt on the real code.

import (
	"fmt"
	"go/types"
	"os"
	"os/exec"
	"path/filepath"
	"strings"
)

func (p *Prog) writeReplay(replayDir, id string, o *Obligation, qdir string) string {
	os.MkdirAll(replayDir, 0o755)
	path := filepath.Join(replayDir, sanitize(o.Name)+".json")
	rec := map[string]interface{}{
		"property":   id,
		"obligation": o.Name,
		"function":   o.Func,
		"kind":       o.Kind,
		"where":      o.Where,
		"verdict":    o.Verdict,
		"solver":     o.Solver,
		"solver_output": firstLines(o.Output, 40),
		"meaning":    verdictMeaning(o.Verdict),
		"reproduced_on_real_code": false,
	}
	if o.Facts != nil && o.NFacts <= len(o.Facts) {
		q := p.BuildQuery(o, nil)
		qpath := filepath.Join(replayDir, sanitize(o.Name)+".smt2")
		os.WriteFile(qpath, []byte(q), 0o644)
		rec["query_file"] = qpath
	}
	if o.Verdict == "sat" && o.ex != nil {
		if rp := p.tryReplay(o, replayDir); rp != nil {
			for k, v := range rp {
				rec[k] = v
			}
		}
	}
	writeJSON(path, rec)
	return path
}

func verdictMeaning(v string) string {
	switch v {
	case "sat":
		return "the negated obligation is satisfiable: a candidate counterexample exists"
	case "unknown", "timeout":
		return "no solver could discharge the obligation within the time limit (proof failure; not by itself a failing input)"
	case "error":
		return "the solvers rejected the query (machinery error)"
	}
	return v
}

func cmdReplay(args []string) int {
	if len(args) < 1 {
		fmt.Println("usage: govc replay <path.json>")
		return 2
	}
	data, err := os.ReadFile(args[0])
	if err != nil {
		fmt.Println(err)
		return 2
	}
	fmt.Println(string(data))
	if strings.Contains(string(data), `"reproduced_on_real_code": true`) {
		return 1
	}
	return 0
}

// tryReplay rebuilds concrete inputs from a model, runs the real function in an
// in-package test injected with `go test -overlay` (the repository is not
// written), and evaluates panics and the function's own contract natively.
func (p *Prog) tryReplay(o *Obligation, replayDir string) map[string]interface{} {
	ex := o.ex
	fn := ex.fn
	if fn.Pkg != p.pkg {
		return map[string]interface{}{"replay_note": "function outside package jmespath: no in-package replay"}
	}
	scratch, err := os.MkdirTemp("", "govc-replay")
	if err != nil {
		return nil
	}
	if os.Getenv("GOVC_KEEP_REPLAY") == "" {
		defer os.RemoveAll(scratch)
	} else {
		fmt.Fprintln(os.Stderr, "replay scratch:", scratch)
	}
	asserts := append([]*Term{}, o.Facts[:o.NFacts]...)
	asserts = append(asserts, Not(o.Goal))
	pb := &prober{p: p, asserts: asserts, known: map[int]string{}, dir: scratch}
	// prefer a witness in the first iteration of every loop (reachable from the inputs)
	if len(ex.firstIter) > 0 {
		pb.preferFirst(ex.firstIter)
	}
	fr := ex.newFrame(fn, TTrue, "")
	b := &builder{pb: pb, fr: fr, w: p.w, ok: true, maxLen: 3}
	saved := ex.st
	ex.st = ex.entry
	defer func() { ex.st = saved }()
	var decls []string
	var argNames []string
	recvExpr := ""
	for i, prm := range fn.Params {
		g := ex.entryParams[prm.Name()]
		name := "g_" + prm.Name()
		if prm.Name() == "_" || prm.Name() == "" {
			name = fmt.Sprintf("govcArg%d", i)
		}
		var lit string
		if pt, ok := prm.Type().Underlying().(*types.Pointer); ok {
			n, isN := pt.Elem().(*types.Named)
			st, isS := pt.Elem().Underlying().(*types.Struct)
			if !isN || !isS {
				b.ok = false
				b.notes = append(b.notes, "pointer parameter "+name)
				continue
			}
			var fs []string
			for k := 0; k < st.NumFields(); k++ {
				f := st.Field(k)
				h := ex.entry.heap[n.Obj().Name()+"."+f.Name()]
				if h == nil {
					continue
				}
				if f.Name() == "buf" || f.Name() == "fCall" || f.Name() == "intr" || f.Name() == "functionTable" {
					continue
				}
				fs = append(fs, f.Name()+": "+b.goLit(Select(h, g.T), f.Type(), 1))
			}
			lit = "&" + n.Obj().Name() + "{" + strings.Join(fs, ", ") + "}"
			if n.Obj().Name() == "treeInterpreter" {
				lit = "newInterpreter()"
			}
			if n.Obj().Name() == "functionCaller" {
				lit = "newFunctionCaller()"
			}
		} else {
			lit = b.goLit(g.T, prm.Type(), 0)
		}
		decls = append(decls, fmt.Sprintf("\t%s := %s\n\t_ = %s", name, lit, name))
		if i == 0 && fn.Signature.Recv() != nil {
			recvExpr = name
		} else {
			argNames = append(argNames, name)
		}
	}
	out := map[string]interface{}{"model_solver": pb.solver, "model_inputs": decls}
	if !b.ok {
		out["replay_note"] = "model could not be turned into concrete inputs: " + strings.Join(b.notes, "; ")
		return out
	}
	rn := resultNames(fn)
	for i := range rn {
		rn[i] = "g_" + rn[i]
	}
	callee := fn.Name()
	if recvExpr != "" {
		callee = recvExpr + "." + fn.Name()
	}
	call := callee + "(" + strings.Join(argNames, ", ") + ")"
	variadicFix := ""
	_ = variadicFix
	gen := func(withClauses bool) string {
		var sb strings.Builder
		sb.WriteString("package jmespath\n\nimport (\n\t\"errors\"\n\t\"fmt\"\n\t\"math\"\n\t\"reflect\"\n\t\"testing\"\n)\n\n")
		sb.WriteString("var _ = errors.New\nvar _ = math.Abs\nvar _ = reflect.DeepEqual\n")
		sb.WriteString("func govcIntPtr(n int) *int { return &n }\n")
		sb.WriteString("func govcEq(a, b interface{}) bool { return reflect.DeepEqual(a, b) }\n")
		sb.WriteString("func govcIsNil(a interface{}) bool {\n\tif a == nil {\n\t\treturn true\n\t}\n\tv := reflect.ValueOf(a)\n\tswitch v.Kind() {\n\tcase reflect.Slice, reflect.Map, reflect.Ptr, reflect.Interface:\n\t\treturn v.IsNil()\n\t}\n\treturn false\n}\n\n")
		sb.WriteString("func TestGovcReplay(t *testing.T) {\n")
		for _, d := range decls {
			sb.WriteString(d + "\n")
		}
		if withClauses && ex.c != nil {
			for i, cl := range ex.c.Requires {
				if g, ok := cexprGo(cl.Expr, p); ok {
					fmt.Fprintf(&sb, "\tfmt.Printf(\"GOVC-REPLAY requires %d %%v\\n\", %s)\n", i+1, g)
				}
			}
		}
		for _, r := range rn {
			fmt.Fprintf(&sb, "\tvar %s %s\n\t_ = %s\n", r, "interface{}", r)
		}
		sb.WriteString("\tpanicked := true\n\tvar pv interface{}\n\tfunc() {\n\t\tdefer func() { pv = recover() }()\n")
		if len(rn) > 0 {
			var tmp []string
			for i := range rn {
				tmp = append(tmp, fmt.Sprintf("govcR%d", i))
			}
			fmt.Fprintf(&sb, "\t\t%s := %s\n", strings.Join(tmp, ", "), call)
			for i, r := range rn {
				fmt.Fprintf(&sb, "\t\t%s = govcR%d\n", r, i)
			}
		} else {
			sb.WriteString("\t\t" + call + "\n")
		}
		sb.WriteString("\t\tpanicked = false\n\t}()\n")
		sb.WriteString("\tif panicked {\n\t\tfmt.Printf(\"GOVC-REPLAY panic %v\\n\", pv)\n\t\treturn\n\t}\n\tfmt.Printf(\"GOVC-REPLAY returned\\n\")\n")
		if withClauses && ex.c != nil {
			// results with their static types for the contract expressions
			sb.WriteString("\t{\n")
			res := fn.Signature.Results()
			for i, r := range rn {
				ts := typeStr(res.At(i).Type())
				if ts == "error" {
					fmt.Fprintf(&sb, "\t\tvar %s_ error\n\t\tif %s != nil {\n\t\t\t%s_ = %s.(error)\n\t\t}\n\t\t%s := %s_\n\t\t_ = %s\n", r, r, r, r, r, r, r)
				} else if ts == "interface{}" {
					fmt.Fprintf(&sb, "\t\t%s := %s\n\t\t_ = %s\n", r, r, r)
				} else {
					fmt.Fprintf(&sb, "\t\t%s, _ := %s.(%s)\n\t\t_ = %s\n", r, r, ts, r)
				}
			}
			for i, cl := range ex.c.Ensures {
				if g, ok := cexprGo(cl.Expr, p); ok {
					fmt.Fprintf(&sb, "\t\tfmt.Printf(\"GOVC-REPLAY ensures %d [%s] %%v\\n\", %s)\n", i+1, clauseLabel2(cl, "ensures", i), g)
				}
			}
			sb.WriteString("\t}\n")
		}
		sb.WriteString("}\n")
		return sb.String()
	}
	run := func(src string) (string, bool) {
		tf := filepath.Join(scratch, "zz_govc_replay_test.go")
		os.WriteFile(tf, []byte(src), 0o644)
		ov := filepath.Join(scratch, "overlay.json")
		os.WriteFile(ov, []byte(fmt.Sprintf(`{"Replace": {%q: %q}}`, filepath.Join(p.repo, "zz_govc_replay_test.go"), tf)), 0o644)
		cmd := exec.Command("go", "test", "-overlay", ov, "-tags", "verif", "-vet=off", "-timeout", "60s", "-count=1", "-v", "-run", "^TestGovcReplay$", ".")
		cmd.Dir = p.repo
		cmd.Env = append(os.Environ(), "GOFLAGS=-mod=mod", "GOPROXY=off", "GOSUMDB=off", "GOTOOLCHAIN=local")
		outb, _ := cmd.CombinedOutput()
		text := string(outb)
		return text, strings.Contains(text, "GOVC-REPLAY")
	}
	src := gen(true)
	text, ok := run(src)
	if !ok {
		src = gen(false)
		text, ok = run(src)
	}
	out["replay_test_source"] = src
	var lines []string
	for _, l := range strings.Split(text, "\n") {
		if strings.HasPrefix(l, "GOVC-REPLAY") {
			lines = append(lines, l)
		}
	}
	out["replay_output"] = lines
	if !ok {
		out["replay_note"] = "replay test did not build or run: " + firstLines(text, 12)
		return out
	}
	reqOK := true
	reproduced := false
	why := ""
	for _, l := range lines {
		switch {
		case strings.HasPrefix(l, "GOVC-REPLAY requires") && strings.HasSuffix(l, "false"):
			reqOK = false
		case strings.HasPrefix(l, "GOVC-REPLAY panic"):
			reproduced = true
			why = "the real function panics on the model input: " + strings.TrimPrefix(l, "GOVC-REPLAY panic ")
		case strings.HasPrefix(l, "GOVC-REPLAY ensures") && strings.HasSuffix(l, "false"):
			reproduced = true
			why = "the real function violates its contract clause on the model input: " + l
		}
	}
	if !reqOK {
		reproduced = false
		why = "model input does not satisfy the function's precondition natively"
	}
	out["reproduced_on_real_code"] = reproduced
	out["replay_result"] = why
	return out
}

// cexprGo compiles a contract expression to Go source (native evaluation at replay).
func cexprGo(e *CExpr, p *Prog) (string, bool) {
	switch e.Op {
	case "int", "bool":
		return e.Name, true
	case "nil":
		return "nil", true
	case "str":
		return fmt.Sprintf("%q", e.Name), true
	case "rune":
		return "rune(" + e.Name + ")", true
	case "id":
		if strings.HasPrefix(e.Name, "\\") {
			return "", false
		}
		switch e.Name {
		case "MaxInt":
			return "math.MaxInt64", true
		case "MinInt":
			return "math.MinInt64", true
		}
		if obj := p.pkg.Pkg.Scope().Lookup(e.Name); obj != nil {
			if _, isConst := obj.(*types.Const); isConst {
				return e.Name, true
			}
		}
		return "g_" + e.Name, true
	case "field":
		a, ok := cexprGo(e.Args[0], p)
		return a + "." + e.Name, ok
	case "index":
		a, ok1 := cexprGo(e.Args[0], p)
		b, ok2 := cexprGo(e.Args[1], p)
		return a + "[" + b + "]", ok1 && ok2
	case "un":
		a, ok := cexprGo(e.Args[0], p)
		return "(" + e.Name + a + ")", ok
	case "bin":
		a, ok1 := cexprGo(e.Args[0], p)
		b, ok2 := cexprGo(e.Args[1], p)
		if !ok1 || !ok2 {
			return "", false
		}
		switch e.Name {
		case "==>":
			return "(!(" + a + ") || (" + b + "))", true
		case "<==>":
			return "((" + a + ") == (" + b + "))", true
		case "==":
			return "govcEq(" + a + ", " + b + ")", true
		case "!=":
			return "!govcEq(" + a + ", " + b + ")", true
		}
		return "(" + a + " " + e.Name + " " + b + ")", true
	case "call":
		var as []string
		for _, x := range e.Args {
			a, ok := cexprGo(x, p)
			if !ok {
				return "", false
			}
			as = append(as, a)
		}
		switch e.Name {
		case "len":
			return "len(" + as[0] + ")", true
		case "isNil":
			return "govcIsNil(" + as[0] + ")", true
		}
		if m, ok := p.cs.Macros[e.Name]; ok && len(m.Params) == len(as) {
			// expand textually through a closure
			body, ok := cexprGo(m.Body, p)
			if !ok {
				return "", false
			}
			_ = body
			return "", false
		}
		if sd, ok := p.specs[e.Name]; ok && sd.Tuple == nil {
			return e.Name + "(" + strings.Join(as, ", ") + ")", true
		}
		return "", false
	}
	return "", false
}
