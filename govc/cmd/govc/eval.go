package main

// Evaluation of contract expressions to SMT terms.

import (
	"fmt"
	"go/constant"
	"go/types"
	"strconv"
	"strings"

	"golang.org/x/tools/go/ssa"
)

type Env struct {
	fr      *Frame
	vars    map[string]*GVal
	st      *State
	old     *State
	oldVars map[string]*GVal
	dbgHead *ssa.BasicBlock
	inOld   bool
}

func (env *Env) with(name string, v *GVal) *Env {
	n := *env
	n.vars = map[string]*GVal{}
	for k, x := range env.vars {
		n.vars[k] = x
	}
	n.vars[name] = v
	return &n
}

func (fr *Frame) entryEnv() *Env {
	ex := fr.ex
	env := &Env{fr: fr, vars: map[string]*GVal{}, st: ex.st, old: ex.entry, oldVars: ex.entryParams}
	for k, v := range ex.entryParams {
		env.vars[k] = v
	}
	return env
}

func (fr *Frame) evalBool(e *CExpr, env *Env) *Term {
	t := fr.evalTerm(e, env)
	if t.S != SBool {
		fr.ex.unsupp("contract expression is not boolean: %s", e)
		return TTrue
	}
	return t
}

func (fr *Frame) evalTerm(e *CExpr, env *Env) *Term {
	nf := fr.noFreeze
	fr.noFreeze = true
	defer func() { fr.noFreeze = nf }()
	g := fr.evalC(e, env, nil)
	saved := fr.ex.st
	fr.ex.st = env.st
	t := fr.term(g)
	fr.ex.st = saved
	return t
}

func sortByName(w *World, p *Prog, n string) *Sort {
	switch n {
	case "int":
		return SInt
	case "bool":
		return SBool
	case "string":
		return SStr
	case "float64":
		return SF64
	case "Val", "interface":
		return SVal
	case "Node", "ASTNode":
		return SNode
	case "rune":
		return SBV32
	case "byte":
		return SBV8
	case "uint64":
		return SBV64
	case "error":
		return SErr
	}
	if obj := p.pkg.Pkg.Scope().Lookup(n); obj != nil {
		return w.SortOf(obj.Type())
	}
	if strings.HasPrefix(n, "Sl_") || strings.HasPrefix(n, "S_") {
		return mkSort(n)
	}
	return nil
}

func typeByName(p *Prog, n string) types.Type {
	switch n {
	case "int":
		return types.Typ[types.Int]
	case "bool":
		return types.Typ[types.Bool]
	case "string":
		return types.Typ[types.String]
	case "float64":
		return types.Typ[types.Float64]
	case "rune":
		return types.Typ[types.Int32]
	case "Val", "interface":
		return types.NewInterfaceType(nil, nil)
	}
	if obj := p.pkg.Pkg.Scope().Lookup(n); obj != nil {
		return obj.Type()
	}
	return nil
}

// evalC evaluates a contract expression. hint is an optional expected sort for literals.
func (fr *Frame) evalC(e *CExpr, env *Env, hint *Sort) *GVal {
	ex := fr.ex
	w := ex.p.w
	tv := func(t *Term) *GVal { return &GVal{T: t} }
	bad := func(format string, a ...interface{}) *GVal {
		ex.unsupp("contract: "+format+" in "+e.String(), a...)
		s := hint
		if s == nil {
			s = SBool
		}
		return tv(ex.p.FreshConst("bad", s))
	}
	switch e.Op {
	case "int":
		n, err := strconv.ParseInt(e.Name, 0, 64)
		if err != nil {
			u, err2 := strconv.ParseUint(e.Name, 0, 64)
			if err2 != nil {
				return tv(IntLitStr(e.Name))
			}
			if hint != nil && hint.IsBV() {
				return tv(BVLit(u, hint.BVWidth()))
			}
			return tv(IntLitStr(strconv.FormatUint(u, 10)))
		}
		if hint != nil && hint.IsBV() {
			return tv(BVLit(uint64(n), hint.BVWidth()))
		}
		if hint == SF64 {
			return tv(fpLit(constant.MakeInt64(n)))
		}
		return tv(IntLit(n))
	case "rune":
		n, _ := strconv.Atoi(e.Name)
		if hint != nil && hint == SInt {
			return tv(IntLit(int64(n)))
		}
		wd := 32
		if hint != nil && hint.IsBV() {
			wd = hint.BVWidth()
		}
		return tv(BVLit(uint64(int64(n)), wd))
	case "str":
		return tv(w.StrLit(e.Name))
	case "bool":
		return tv(BoolLit(e.Name == "true"))
	case "nil":
		if hint == SErr {
			return tv(mk("ErrNil", SErr))
		}
		if hint != nil && hint.S == "PInt" {
			return tv(mk("pnil", hint))
		}
		if hint == SInt {
			return tv(IntLit(0))
		}
		return tv(VNil)
	case "id":
		if g, ok := env.vars[e.Name]; ok {
			fr.recordBinding(e.Name, env, true)
			return g
		}
		if env.dbgHead != nil {
			if g := fr.lookupDebugVar(e.Name, env.dbgHead); g != nil {
				fr.recordBinding(e.Name, env, false)
				return g
			}
		}
		// the name does not occur (any more): a variable renamed in the code is found by its recorded role
		if g := fr.bindFallback(e.Name, env); g != nil {
			return g
		}
		// package-level constant
		for _, pk := range []*ssa.Package{ex.p.pkg, ex.p.mainPkg} {
			if pk == nil {
				continue
			}
			if obj := pk.Pkg.Scope().Lookup(e.Name); obj != nil {
				if c, ok := obj.(*types.Const); ok {
					return tv(fr.constTerm(ssa.NewConst(c.Val(), c.Type())))
				}
				if v, ok := obj.(*types.Var); ok {
					if g, ok := ex.p.globals[v.Name()]; ok {
						return tv(g)
					}
				}
			}
		}
		switch e.Name {
		case `\errSeen`:
			if es := env.st.ghost["errSeen"]; es != nil {
				return tv(es)
			}
			return tv(TFalse)
		case "MaxInt":
			return tv(maxInt)
		case "MinInt":
			return tv(minInt)
		case "NaN":
			return tv(mk("(_ NaN 11 53)", SF64))
		}
		if strings.HasPrefix(e.Name, `\`) {
			for _, k := range ioGhosts {
				if e.Name == `\`+k.name {
					if t := env.st.ghost[k.name]; t != nil {
						return tv(t)
					}
					return tv(ex.p.NamedConst(k.name+"@unknown_"+ex.fname0(), k.sort))
				}
			}
		}
		// a local variable of the function that is not defined on every path to this point: its value
		// there is arbitrary (an unconstrained constant can only make the obligation harder)
		if env.dbgHead != nil {
			if vs := fr.dbgAll[e.Name]; len(vs) > 0 {
				for _, v := range vs {
					if _, isConst := v.(*ssa.Const); !isConst {
						return &GVal{T: ex.p.NamedConst(e.Name+"@undefined_here_"+ex.fname0(), w.SortOf(v.Type())), Typ: v.Type()}
					}
				}
			}
		}
		return bad("unknown identifier %s", e.Name)
	case "old":
		n := *env
		n.st = env.old
		n.inOld = true
		if env.oldVars != nil {
			n.vars = map[string]*GVal{}
			for k, v := range env.vars {
				n.vars[k] = v
			}
			for k, v := range env.oldVars {
				n.vars[k] = v
			}
		}
		g := fr.evalC(e.Args[0], &n, hint)
		if g.T == nil {
			return &GVal{T: fr.termIn(g, &n), Typ: g.Typ}
		}
		return g
	case "entry":
		li := fr.loops[env.dbgHead]
		if env.dbgHead == nil || li == nil || li.entrySt == nil {
			return bad("\\entry() outside a loop clause in %s", e)
		}
		n := *env
		n.st = li.entrySt
		n.vars = li.entryVars
		g := fr.evalC(e.Args[0], &n, hint)
		if g.T == nil {
			// a value backed by local storage: read it in the entry state, not in the caller's
			return &GVal{T: fr.termIn(g, &n), Typ: g.Typ}
		}
		return g
	case "field":
		base := fr.evalC(e.Args[0], env, nil)
		return fr.evalField(base, e.Name, env, e)
	case "index":
		base := fr.evalC(e.Args[0], env, nil)
		bt := fr.termIn(base, env)
		if si := w.SliceInfoOfSort(bt.S); si != nil {
			idx := fr.termIn(fr.evalC(e.Args[1], env, SInt), env)
			return tv(Select(w.SlArr(bt), idx))
		}
		if bt.S.IsArray() {
			k, _ := bt.S.ArrayParts()
			idx := fr.termIn(fr.evalC(e.Args[1], env, k), env)
			return tv(Select(bt, idx))
		}
		if mi := w.MapInfoOfSort(bt.S); mi != nil {
			idx := fr.termIn(fr.evalC(e.Args[1], env, mi.K), env)
			return tv(Select(w.MpVal(bt), idx))
		}
		if bt.S == SStr {
			idx := fr.termIn(fr.evalC(e.Args[1], env, SInt), env)
			return tv(App("gs.at", SBV8, bt, idx))
		}
		return bad("index on %s", bt.S.S)
	case "un":
		x := fr.termIn(fr.evalC(e.Args[0], env, hint), env)
		switch e.Name {
		case "!":
			return tv(Not(x))
		case "-":
			if x.S == SInt {
				if x.Head != "" && len(x.Args) == 0 && x.Head[0] >= '0' && x.Head[0] <= '9' {
					return tv(IntLitStr("-" + x.Head))
				}
				return tv(mk("-", SInt, x))
			}
			if x.S.IsBV() {
				return tv(App("bvneg", x.S, x))
			}
			if x.S == SF64 {
				return tv(App("fp.neg", SF64, x))
			}
		case "^":
			if x.S.IsBV() {
				return tv(App("bvnot", x.S, x))
			}
		}
		return bad("unary %s on %s", e.Name, x.S.S)
	case "cond":
		c := fr.termIn(fr.evalC(e.Args[0], env, SBool), env)
		a := fr.termIn(fr.evalC(e.Args[1], env, hint), env)
		b := fr.termIn(fr.evalC(e.Args[2], env, a.S), env)
		if a.S != b.S {
			return bad("conditional branches of different sorts")
		}
		return tv(Ite(c, a, b))
	case "forall", "exists":
		s := sortByName(w, ex.p, e.VarT)
		if s == nil {
			return bad("unknown sort %s", e.VarT)
		}
		bv := mkBoundVar(e.Var+"!b", s)
		body := fr.termIn(fr.evalC(e.Args[0], env.with(e.Var, &GVal{T: bv, Typ: typeByName(ex.p, e.VarT)}), SBool), env)
		if e.Op == "forall" {
			return tv(Forall([]*Term{bv}, body))
		}
		return tv(Exists([]*Term{bv}, body))
	case "bin":
		return fr.evalBin(e, env, hint)
	case "call":
		return fr.evalCall(e, env, hint)
	}
	return bad("unsupported expression")
}

func (fr *Frame) termIn(g *GVal, env *Env) *Term {
	nf := fr.noFreeze
	fr.noFreeze = true
	defer func() { fr.noFreeze = nf }()
	saved := fr.ex.st
	fr.ex.st = env.st
	t := fr.term(g)
	fr.ex.st = saved
	return t
}

// lookupDebugVar resolves a source-level local variable name to an SSA value dominating head.
func (fr *Frame) lookupDebugVar(name string, head *ssa.BasicBlock) *GVal {
	// all debug references of the whole function (the declaration-site reference of x/tools'
	// go/ssa carries the zero value, so later references are consulted as well)
	if fr.dbgAll == nil {
		fr.dbgAll = map[string][]ssa.Value{}
		for _, b := range fr.fn.Blocks {
			for _, in := range b.Instrs {
				if d, ok := in.(*ssa.DebugRef); ok {
					if v, ok := d.Object().(*types.Var); ok && v != nil && !v.IsField() {
						fr.dbgAll[v.Name()] = append(fr.dbgAll[v.Name()], d.X)
						if _, isConst := d.X.(*ssa.Const); isConst {
							if fr.dbgConstAt == nil {
								fr.dbgConstAt = map[ssa.Value][]*ssa.BasicBlock{}
							}
							fr.dbgConstAt[d.X] = append(fr.dbgConstAt[d.X], d.Block())
						}
					}
				}
			}
		}
	}
	var found ssa.Value
	var constCand ssa.Value
	for _, v := range fr.dbgAll[name] {
		switch x := v.(type) {
		case *ssa.Const:
			// a constant initialiser counts only where its declaration reaches this point
			for _, cb := range fr.dbgConstAt[v] {
				if cb != nil && cb.Dominates(head) {
					constCand = v
				}
			}
			_ = x
			continue
		case *ssa.Parameter:
		case ssa.Instruction:
			if x.Block() == nil || !x.Block().Dominates(head) {
				continue
			}
			if _, known := fr.vals[v]; !known {
				continue
			}
			if phi, isPhi := v.(*ssa.Phi); isPhi && phi.Block() == head {
				continue // header phis are bound by the loop environment
			}
		default:
			continue
		}
		if found == nil || found == v {
			found = v
			continue
		}
		// several dominating definitions: keep the later one
		if fi, ok := found.(ssa.Instruction); ok {
			if vi, ok := v.(ssa.Instruction); ok && fi.Block().Dominates(vi.Block()) {
				found = v
			}
		} else {
			found = v
		}
	}
	if found == nil {
		found = constCand
	}
	if found == nil {
		return nil
	}
	return fr.val(found)
}

func (fr *Frame) evalField(base *GVal, name string, env *Env, e *CExpr) *GVal {
	ex := fr.ex
	w := ex.p.w
	tv := func(t *Term) *GVal { return &GVal{T: t} }
	// pointer to struct: read through, in env's state
	if base.Ptr != nil && base.T == nil {
		saved := ex.st
		ex.st = env.st
		t := fr.load(base.Ptr.extend(PathElem{Field: name}))
		ex.st = saved
		return tv(t)
	}
	if base.T != nil && base.T.S == SInt && base.Typ != nil {
		if pt, ok := base.Typ.Underlying().(*types.Pointer); ok {
			if n, ok := pt.Elem().(*types.Named); ok {
				w.SortOf(n)
				saved := ex.st
				ex.st = env.st
				t := fr.load(&Ptr{Ref: base.T, RefTy: n.Obj().Name(), Path: []PathElem{{Field: name}}})
				ex.st = saved
				g := tv(t)
				if st, ok := n.Underlying().(*types.Struct); ok {
					for k := 0; k < st.NumFields(); k++ {
						if st.Field(k).Name() == name {
							g.Typ = st.Field(k).Type()
						}
					}
				}
				return g
			}
		}
	}
	bt := fr.termIn(base, env)
	if bt.S == SNode {
		switch name {
		case "nodeType", "value", "children":
			return tv(nodeField(w, bt, name))
		}
	}
	if si := w.StructInfoOfSort(bt.S); si != nil {
		for _, f := range si.Fields {
			if f.Name == name {
				return &GVal{T: w.Field(bt, name), Typ: f.T}
			}
		}
	}
	if bt.S == SErr {
		switch name {
		case "Offset":
			return tv(App("eoff", SInt, bt))
		case "Expression":
			return tv(App("eexpr", SStr, bt))
		}
	}
	ex.unsupp("contract: field %s of %s in %s", name, bt.S.S, e.String())
	return tv(ex.p.FreshConst("badfield", SInt))
}

func (fr *Frame) evalBin(e *CExpr, env *Env, hint *Sort) *GVal {
	ex := fr.ex
	tv := func(t *Term) *GVal { return &GVal{T: t} }
	op := e.Name
	switch op {
	case "&&", "||", "==>", "<==>":
		a := fr.termIn(fr.evalC(e.Args[0], env, SBool), env)
		b := fr.termIn(fr.evalC(e.Args[1], env, SBool), env)
		if a.S != SBool || b.S != SBool {
			ex.unsupp("contract: logical operator on non-bool in %s", e)
			return tv(TTrue)
		}
		switch op {
		case "&&":
			return tv(And(a, b))
		case "||":
			return tv(Or(a, b))
		case "==>":
			return tv(Implies(a, b))
		default:
			return tv(Eq(a, b))
		}
	}
	// evaluate the non-literal side first to obtain the sort hint
	isLit := func(x *CExpr) bool {
		return x.Op == "int" || x.Op == "nil" || x.Op == "rune" || (x.Op == "un" && x.Args[0].Op == "int")
	}
	var a, b *Term
	if isLit(e.Args[0]) && !isLit(e.Args[1]) {
		b = fr.termIn(fr.evalC(e.Args[1], env, nil), env)
		a = fr.termIn(fr.evalC(e.Args[0], env, b.S), env)
	} else {
		h := hint
		if op == "==" || op == "!=" || op == "<" || op == "<=" || op == ">" || op == ">=" {
			h = nil
		}
		a = fr.termIn(fr.evalC(e.Args[0], env, h), env)
		b = fr.termIn(fr.evalC(e.Args[1], env, a.S), env)
	}
	if a.S != b.S {
		ex.unsupp("contract: operands of different sorts (%s, %s) in %s", a.S.S, b.S.S, e)
		return tv(ex.p.FreshConst("bad", SBool))
	}
	s := a.S
	switch op {
	case "==":
		if s == SF64 {
			return tv(App("fp.eq", SBool, a, b))
		}
		return tv(Eq(a, b))
	case "!=":
		if s == SF64 {
			return tv(Not(App("fp.eq", SBool, a, b)))
		}
		return tv(Not(Eq(a, b)))
	}
	switch {
	case s == SInt:
		switch op {
		case "+", "-", "*":
			return tv(mk(op, SInt, a, b))
		case "/":
			return tv(App("go.div", SInt, a, b))
		case "%":
			return tv(App("go.rem", SInt, a, b))
		case "<", "<=", ">", ">=":
			return tv(mk(op, SBool, a, b))
		}
	case s.IsBV():
		m := map[string]string{"+": "bvadd", "-": "bvsub", "*": "bvmul", "&": "bvand", "|": "bvor", "^": "bvxor", "<<": "bvshl", ">>": "bvlshr", "/": "bvudiv", "%": "bvurem"}
		if f, ok := m[op]; ok {
			return tv(App(f, s, a, b))
		}
		// rune (32-bit) compares signed, others unsigned
		signed := s == SBV32
		cm := map[string][2]string{"<": {"bvslt", "bvult"}, "<=": {"bvsle", "bvule"}, ">": {"bvsgt", "bvugt"}, ">=": {"bvsge", "bvuge"}}
		if f, ok := cm[op]; ok {
			if signed {
				return tv(App(f[0], SBool, a, b))
			}
			return tv(App(f[1], SBool, a, b))
		}
	case s == SF64:
		switch op {
		case "<":
			return tv(App("f64.lt", SBool, a, b))
		case "<=":
			return tv(App("f64.leq", SBool, a, b))
		case ">":
			return tv(App("f64.lt", SBool, b, a))
		case ">=":
			return tv(App("f64.leq", SBool, b, a))
		}
		if op == "/" {
			return tv(App("f64.div", SF64, a, b))
		}
		am := map[string]string{"+": "fp.add", "-": "fp.sub", "*": "fp.mul"}
		if f, ok := am[op]; ok {
			return tv(App(f, SF64, mk("RNE", mkSort("RoundingMode")), a, b))
		}
	case s == SStr:
		switch op {
		case "+":
			return tv(App("gs.cat", SStr, a, b))
		case "<":
			return tv(App("gs.lt", SBool, a, b))
		case ">":
			return tv(App("gs.lt", SBool, b, a))
		case "<=":
			return tv(Not(App("gs.lt", SBool, b, a)))
		case ">=":
			return tv(Not(App("gs.lt", SBool, a, b)))
		}
	}
	ex.unsupp("contract: operator %s on %s in %s", op, s.S, e)
	return tv(ex.p.FreshConst("bad", SBool))
}

func (fr *Frame) evalCall(e *CExpr, env *Env, hint *Sort) *GVal {
	ex := fr.ex
	w := ex.p.w
	tv := func(t *Term) *GVal { return &GVal{T: t} }
	arg := func(i int, h *Sort) *Term { return fr.termIn(fr.evalC(e.Args[i], env, h), env) }
	switch e.Name {
	case "len":
		g := fr.evalC(e.Args[0], env, nil)
		if g.Len != nil {
			return tv(g.Len)
		}
		x := fr.termIn(g, env)
		switch {
		case x.S == SStr:
			return tv(App("gs.len", SInt, x))
		case w.SliceInfoOfSort(x.S) != nil:
			return tv(w.SlLen(x))
		case w.MapInfoOfSort(x.S) != nil:
			return tv(w.MpSize(x))
		}
		ex.unsupp("contract: len of %s", x.S.S)
		return tv(IntLit(0))
	case "isNil":
		x := arg(0, nil)
		switch {
		case x.S == SVal:
			return tv(VIs("VNil", x))
		case x.S == SErr:
			return tv(App("(_ is ErrNil)", SBool, x))
		case x.S.S == "PInt":
			return tv(App("(_ is pnil)", SBool, x))
		case w.SliceInfoOfSort(x.S) != nil:
			return tv(w.SlNil(x))
		case w.MapInfoOfSort(x.S) != nil:
			return tv(w.MpNil(x))
		case x.S == SInt:
			return tv(Eq(x, IntLit(0)))
		}
	case "isNum", "isStr", "isBool", "isArr", "isObj", "isExpRef", "isInt", "isTok", "isIntPtrs", "isIntr", "isGo":
		ct := map[string]string{"isNum": "VNum", "isStr": "VStr", "isBool": "VBool", "isArr": "VArr", "isObj": "VObj", "isExpRef": "VExpRef",
			"isInt": "VInt", "isTok": "VTok", "isIntPtrs": "VIntPtrs", "isIntr": "VIntr", "isGo": "VGo"}[e.Name]
		return tv(VIs(ct, arg(0, SVal)))
	case "isSyntaxError":
		return tv(App("(_ is ErrSyntax)", SBool, arg(0, SErr)))
	case "numOf":
		return tv(VNumOf(arg(0, SVal)))
	case "strOf":
		return tv(VStrOf(arg(0, SVal)))
	case "boolOf":
		return tv(VBoolOf(arg(0, SVal)))
	case "intOf":
		return tv(VIntOf(arg(0, SVal)))
	case "tokOf":
		return tv(VTokOf(arg(0, SVal)))
	case "refOf":
		return tv(VRefOf(arg(0, SVal)))
	case "arrOf":
		x := arg(0, SVal)
		return tv(w.MkSlice(SVal, VArrOf(x), VLenOf(x), VArrNil(x)))
	case "objOf":
		x := arg(0, SVal)
		if obj := ex.p.pkg.Pkg.Scope().Lookup("specEmptyObj"); obj != nil {
			mt := obj.Type().(*types.Signature).Results().At(0).Type()
			mi := w.MapInfoOfSort(w.SortOf(mt))
			return tv(w.MkMap(mi, VDomOf(x), VMapOf(x), VSizeOf(x), VObjNil(x)))
		}
	case `\perm`:
		// index in the input of the element that the last sort.Stable call on this path put at position j
		var arr *Term
		n := 0
		for k, v := range env.st.ghost {
			if strings.HasPrefix(k, "sortArr:") {
				arr = v
				n++
			}
		}
		ln := env.st.ghost["sortLen"]
		if n == 0 {
			// no sort happened on this path: nothing is known about the index function
			ex.p.DeclareFun("sortPerm_none", []*Sort{SInt}, SInt)
			return tv(App("sortPerm_none", SInt, arg(0, SInt)))
		}
		if n != 1 || ln == nil {
			ex.unsupp("contract: \\perm() is ambiguous: %d sort.Stable calls on the path in %s", n, e)
			return tv(IntLit(0))
		}
		_, es := arr.S.ArrayParts()
		pf := "sortPerm_" + sortIdent(es)
		return tv(App(pf, SInt, arr, ln, arg(0, SInt)))
	case `\ret`, `\arg`:
		// \ret(f, i): the i-th result of the most recent call of f on this path; \arg(f, i): its i-th argument
		if len(e.Args) == 2 && e.Args[0].Op == "id" && e.Args[1].Op == "int" {
			key := e.Name[1:] + ":" + e.Args[0].Name + ":" + e.Args[1].Name
			if t := env.st.ghost[key]; t != nil {
				return tv(t)
			}
			// no such call on this path: arbitrary
			s := ex.p.ghostSorts[key]
			if s == nil {
				s = hint
			}
			if s == nil {
				s = SVal
			}
			return tv(ex.p.NamedConst(strings.ReplaceAll(key, ":", ".")+"@no_call_"+sortIdent(s)+"_"+ex.fname0(), s))
		}
	case "flagName":
		g := fr.evalC(e.Args[0], env, nil)
		if g.Ptr != nil && g.Ptr.Cell != nil {
			if t := ex.flagNames[g.Ptr.Cell]; t != nil {
				return tv(t)
			}
		}
		ex.unsupp("contract: flagName of something that is not a registered flag in %s", e)
		return tv(ex.p.FreshConst("bad", SStr))
	case "deref":
		g := fr.evalC(e.Args[0], env, nil)
		if g.Ptr != nil {
			saved := ex.st
			ex.st = env.st
			t := fr.load(g.Ptr)
			ex.st = saved
			return tv(t)
		}
		ex.unsupp("contract: deref of a non-pointer in %s", e)
		return tv(ex.p.FreshConst("bad", SBool))
	case "strOfBytes":
		bs := w.sliceSort(SBV8)
		ex.p.DeclareFun("gs.from_"+sortIdent(SBV8), []*Sort{bs.S}, SStr)
		return tv(App("gs.from_"+sortIdent(SBV8), SStr, arg(0, bs.S)))
	case "marshalOf", "marshalOK", "jsonDecodeOf", "jsonValid":
		bs := w.sliceSort(SBV8)
		ex.p.DeclareFun("jsonEncode", []*Sort{SVal}, bs.S)
		ex.p.DeclareFun("jsonMarshalOK", []*Sort{SVal}, SBool)
		ex.p.DeclareFun("jsonDecode", []*Sort{bs.S}, SVal)
		ex.p.DeclareFun("jsonOK", []*Sort{bs.S}, SBool)
		switch e.Name {
		case "marshalOf":
			return tv(App("jsonEncode", bs.S, arg(0, SVal)))
		case "marshalOK":
			return tv(App("jsonMarshalOK", SBool, arg(0, SVal)))
		case "jsonDecodeOf":
			return tv(App("jsonDecode", SVal, arg(0, bs.S)))
		default:
			return tv(App("jsonOK", SBool, arg(0, bs.S)))
		}
	case "fileBytes", "fileOK":
		bs := w.sliceSort(SBV8)
		ex.p.DeclareFun("file.bytes", []*Sort{SStr}, bs.S)
		ex.p.DeclareFun("file.ok", []*Sort{SStr}, SBool)
		if e.Name == "fileBytes" {
			return tv(App("file.bytes", bs.S, arg(0, SStr)))
		}
		return tv(App("file.ok", SBool, arg(0, SStr)))
	case "stdinBytes", "stdinOK":
		bs := w.sliceSort(SBV8)
		ex.p.DeclareFun("stdin.bytes", nil, bs.S)
		ex.p.DeclareFun("stdin.ok", nil, SBool)
		if e.Name == "stdinBytes" {
			return tv(App("stdin.bytes", bs.S))
		}
		return tv(App("stdin.ok", SBool))
	case "goField", "goHasField", "goFieldUnexported":
		ex.p.DeclareFun("goField", []*Sort{SVal, SStr}, SVal)
		ex.p.DeclareFun("goHasField", []*Sort{SVal, SStr}, SBool)
		ex.p.DeclareFun("goFieldUnexported", []*Sort{SVal, SStr}, SBool)
		rs := SBool
		if e.Name == "goField" {
			rs = SVal
		}
		return tv(App(e.Name, rs, arg(0, SVal), arg(1, SStr)))
	case "goIndex":
		ex.p.DeclareFun("goIndex", []*Sort{SVal, SInt}, SVal)
		return tv(App("goIndex", SVal, arg(0, SVal), arg(1, SInt)))
	case "goElem":
		ex.p.DeclareFun("goElem", []*Sort{SVal}, SVal)
		return tv(App("goElem", SVal, arg(0, SVal)))
	case "goIsNil":
		ex.p.DeclareFun("goIsNil", []*Sort{SVal}, SBool)
		return tv(App("goIsNil", SBool, arg(0, SVal)))
	case "capitalised":
		// the key with its first code point upper-cased: string(unicode.ToUpper(first)) + key[width:]
		k := arg(0, SStr)
		ex.p.DeclareFun("utf8.rune", []*Sort{SStr}, SBV32)
		ex.p.DeclareFun("utf8.width", []*Sort{SStr}, SInt)
		ex.p.DeclareFun("unicode.upper", []*Sort{SBV32}, SBV32)
		first := App("gs.fromRune", SStr, App("unicode.upper", SBV32, App("utf8.rune", SBV32, k)))
		rest := App("gs.sub", SStr, k, App("utf8.width", SInt, k), App("gs.len", SInt, k))
		return tv(App("gs.cat", SStr, first, rest))
	case "goLen", "goDepth":
		ex.p.DeclareFun(e.Name, []*Sort{SVal}, SInt)
		return tv(App(e.Name, SInt, arg(0, SVal)))
	case "runesOf":
		si := w.sliceSort(SBV32)
		ex.p.DeclareFun("gs.to_"+sortIdent(SBV32), []*Sort{SStr}, si.S)
		return tv(App("gs.to_"+sortIdent(SBV32), si.S, arg(0, SStr)))
	case "validRune":
		return tv(validRune(arg(0, SBV32)))
	case "emptyStrs":
		return tv(w.MkSlice(SStr, ConstArray(SArray(SInt, SStr), ex.zeroElem(types.Typ[types.String])), IntLit(0), TFalse))
	case "arrLen":
		return tv(VLenOf(arg(0, SVal)))
	case "arrAt":
		return tv(Select(VArrOf(arg(0, SVal)), arg(1, SInt)))
	case "objHas":
		return tv(Select(VDomOf(arg(0, SVal)), arg(1, SStr)))
	case "objAt":
		return tv(Select(VMapOf(arg(0, SVal)), arg(1, SStr)))
	case "objSize":
		return tv(VSizeOf(arg(0, SVal)))
	case "mkNum":
		return tv(VNum(arg(0, SF64)))
	case "mkStr":
		return tv(VStr(arg(0, SStr)))
	case "mkBool":
		return tv(VBool(arg(0, SBool)))
	case "mkArr":
		x := arg(0, nil)
		return tv(VArr(w.SlArr(x), w.SlLen(x), w.SlNil(x)))
	case "kid":
		return tv(Select(NKids(arg(0, SNode)), arg(1, SInt)))
	case "nkids":
		return tv(NNKids(arg(0, SNode)))
	case "fresh":
		g := fr.evalC(e.Args[0], env, nil)
		if g.Fresh != nil {
			return tv(g.Fresh)
		}
		return tv(TFalse)
	case "theFunctionTable":
		if t := ex.p.functionTable(); t != nil {
			return tv(t)
		}
	case "intrOf":
		x := arg(0, SVal)
		if obj := ex.p.pkg.Pkg.Scope().Lookup("treeInterpreter"); obj != nil {
			return &GVal{T: App("vintr", SInt, x), Typ: types.NewPointer(obj.Type())}
		}
	case "mapHas":
		m := arg(0, nil)
		if mi := w.MapInfoOfSort(m.S); mi != nil {
			return tv(Select(w.MpDom(m), arg(1, mi.K)))
		}
	case "kindOf":
		return tv(App("kindOf", SInt, arg(0, SVal)))
	case "same":
		a := arg(0, nil)
		b := arg(1, a.S)
		if a.S != b.S {
			ex.unsupp("contract: same() on different sorts in %s", e)
			return tv(TTrue)
		}
		return tv(Eq(a, b))
	case "isNaN":
		return tv(App("fp.isNaN", SBool, arg(0, SF64)))
	case "isInf":
		return tv(App("fp.isInfinite", SBool, arg(0, SF64)))
	case "finite":
		x := arg(0, SF64)
		return tv(And(Not(App("fp.isNaN", SBool, x)), Not(App("fp.isInfinite", SBool, x))))
	case "inRange":
		x := arg(0, SInt)
		return tv(And(Le(minInt, x), Le(x, maxInt)))
	case "toRune":
		return tv(bvResize(arg(0, SBV8), 32, false))
	case "toByte":
		return tv(bvResize(arg(0, SBV32), 8, false))
	case "bytesOf":
		si := w.sliceSort(SBV8)
		ex.p.DeclareFun("gs.to_"+sortIdent(SBV8), []*Sort{SStr}, si.S)
		// the non-nil slice holding the bytes of the string (the form a conversion []byte(s) takes)
		t := App("gs.to_"+sortIdent(SBV8), si.S, arg(0, SStr))
		return tv(w.MkSlice(SBV8, w.SlArr(t), w.SlLen(t), TFalse))
	case "jsonDecodeStrOf", "replaceAll":
		bs := w.sliceSort(SBV8)
		if e.Name == "replaceAll" {
			ex.p.DeclareFun("gs.replaceAll", []*Sort{SStr, SStr, SStr}, SStr)
			return tv(App("gs.replaceAll", SStr, arg(0, SStr), arg(1, SStr), arg(2, SStr)))
		}
		ex.p.DeclareFun("jsonDecodeStr", []*Sort{bs.S}, SStr)
		return tv(App("jsonDecodeStr", SStr, arg(0, bs.S)))
	case "substr":
		return tv(App("gs.sub", SStr, arg(0, SStr), arg(1, SInt), arg(2, SInt)))
	case "byteAt":
		return tv(App("gs.at", SBV8, arg(0, SStr), arg(1, SInt)))
	case "bp": // bindingPowers lookup
		if g, ok := ex.p.globals["bindingPowers"]; ok {
			k := arg(0, SInt)
			return tv(Ite(Select(w.MpDom(g), k), Select(w.MpVal(g), k), IntLit(0)))
		}
	case "heapEq": // heapEq("Type.field"): field unchanged since entry for all objects
		if len(e.Args) == 1 && e.Args[0].Op == "str" {
			key := e.Args[0].Name
			parts := strings.SplitN(key, ".", 2)
			fs := ex.heapFieldSort(parts[0], parts[1])
			return tv(Eq(ex.heapGet(env.st, key, fs), ex.heapGet(env.old, key, fs)))
		}
	}
	switch e.Name {
	case "specObjPut":
		m := arg(0, nil)
		if mi := w.MapInfoOfSort(m.S); mi != nil {
			return tv(mapPut(w, m, arg(1, mi.K), arg(2, mi.V)))
		}
	case "nilNodes":
		return tv(w.MkSlice(SNode, ConstArray(SArray(SInt, SNode), ex.zeroElem(nodeType(ex.p))), IntLit(0), TTrue))
	case "emptyObj":
		if obj := ex.p.pkg.Pkg.Scope().Lookup("specEmptyObj"); obj != nil {
			mt := obj.Type().(*types.Signature).Results().At(0).Type()
			mi := w.MapInfoOfSort(w.SortOf(mt))
			return tv(w.MkMap(mi, ConstArray(SArray(mi.K, SBool), TFalse), ConstArray(SArray(mi.K, mi.V), VNil), IntLit(0), TFalse))
		}
	}
	// contract macro
	if m, ok := ex.p.cs.Macros[e.Name]; ok {
		if len(m.Params) != len(e.Args) {
			ex.unsupp("contract: macro %s expects %d arguments in %s", e.Name, len(m.Params), e)
			return tv(TTrue)
		}
		menv := *env
		menv.vars = map[string]*GVal{}
		for k, v := range env.vars {
			menv.vars[k] = v
		}
		for i, pn := range m.Params {
			menv.vars[pn] = fr.evalC(e.Args[i], env, nil)
		}
		return fr.evalC(m.Body, &menv, hint)
	}
	// spec function
	if sd, ok := ex.p.specs[e.Name]; ok {
		if len(sd.Params) != len(e.Args) {
			ex.unsupp("contract: %s expects %d arguments in %s", e.Name, len(sd.Params), e)
			return tv(ex.p.FreshConst("bad", sd.Ret))
		}
		args := make([]*Term, len(e.Args))
		for i := range e.Args {
			args[i] = arg(i, sd.Params[i].S)
			if args[i].S != sd.Params[i].S {
				ex.unsupp("contract: argument %d of %s has sort %s, want %s in %s", i, e.Name, args[i].S.S, sd.Params[i].S.S, e)
				return tv(ex.p.FreshConst("bad", sd.Ret))
			}
		}
		ex.p.ensureSpec(e.Name)
		t := App(e.Name, sd.Ret, args...)
		if sd.Tuple != nil {
			return &GVal{T: t, Tuple: sd.tupleVals(t)}
		}
		return tv(t)
	}
	// tuple projection helpers: fst(x), snd(x), nth
	switch e.Name {
	case "fst", "snd", "thd":
		g := fr.evalC(e.Args[0], env, nil)
		i := map[string]int{"fst": 0, "snd": 1, "thd": 2}[e.Name]
		if g.Tuple != nil && i < len(g.Tuple) {
			return g.Tuple[i]
		}
	}
	ex.unsupp("contract: unknown function %s in %s", e.Name, e)
	s := hint
	if s == nil {
		s = SBool
	}
	return tv(ex.p.FreshConst("bad", s))
}

var _ = fmt.Sprintf

func nodeType(p *Prog) types.Type {
	return p.pkg.Pkg.Scope().Lookup("ASTNode").Type()
}
