package main

import "strings"

// Contract variants. A function may carry a second contract, written
//   //@ func <name> #<variant>
// which is verified separately over the same code: the body is executed under the variant's
// preconditions, and calls made from a variant use the callee's contract of the same variant
// when it has one (otherwise the callee's ordinary contract). Used for the "Go document"
// behaviour (property C18): the same functions, with weaker assumptions about the data.

func baseName(n string) string {
	if i := strings.Index(n, "#"); i >= 0 {
		return n[:i]
	}
	return n
}

func variantOf(n string) string {
	if i := strings.Index(n, "#"); i >= 0 {
		return n[i+1:]
	}
	return ""
}

// contractFor: the contract a call to callee gets when made from a function verified as caller.
func (p *Prog) contractFor(caller, callee string) *Contract {
	if v := variantOf(caller); v != "" {
		if c := p.cs.Funcs[baseName(callee)+"#"+v]; c != nil {
			return c
		}
	}
	return p.cs.Funcs[baseName(callee)]
}
