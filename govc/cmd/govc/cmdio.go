package main

// Effects of the command-line adapter (cmd/jpgo, property C19): standard output and standard
// error are ghost traces, the process exit status a ghost variable. The library functions called
// from the command are within the verified subset, which contains no output operation, so only
// the command's own calls to fmt/flag/os/ioutil move these ghosts.

import (
	"go/types"

	"golang.org/x/tools/go/ssa"
)

type ioGhost struct {
	name string
	sort *Sort
}

var ioGhosts = []ioGhost{{"stdoutCount", SInt}, {"stdoutText", SStr}, {"stderrCount", SInt}, {"exitCode", SInt}, {"exited", SBool}}

// distinguished references for the three standard streams
var osFiles = map[string]int64{"Stdin": -101, "Stdout": -102, "Stderr": -103}

func (fr *Frame) ioGet(k string, s *Sort) *Term {
	ex := fr.ex
	if t := ex.st.ghost[k]; t != nil {
		return t
	}
	t := ex.p.NamedConst(k+"@unknown_"+ex.fname0(), s)
	ex.st.ghost[k] = t
	return t
}

// stream: which standard stream an io.Writer / io.Reader argument denotes (nil when unknown)
func (fr *Frame) stream(g *GVal) *Term {
	if g == nil {
		return nil
	}
	if g.Wrapped != nil {
		return fr.stream(g.Wrapped)
	}
	if g.T != nil && g.T.S == SInt {
		return g.T
	}
	return nil
}

func (fr *Frame) emit(streamRef *Term, text *Term) {
	ex := fr.ex
	isOut := Eq(streamRef, IntLit(osFiles["Stdout"]))
	isErr := Eq(streamRef, IntLit(osFiles["Stderr"]))
	oc := fr.ioGet("stdoutCount", SInt)
	ot := fr.ioGet("stdoutText", SStr)
	ec := fr.ioGet("stderrCount", SInt)
	ex.st.ghost["stdoutCount"] = Ite(isOut, Add(oc, IntLit(1)), oc)
	ex.st.ghost["stdoutText"] = Ite(isOut, App("gs.cat", SStr, ot, text), ot)
	ex.st.ghost["stderrCount"] = Ite(isErr, Add(ec, IntLit(1)), ec)
}

// cmdCall models the library functions that only the command uses. ok is false when name is not one of them.
func (fr *Frame) cmdCall(in *ssa.Call, name string, args []*GVal) (*GVal, bool) {
	ex := fr.ex
	p := ex.p
	w := p.w
	use := func(s string) { p.assumptions["stdlib: "+s] = true }
	nErr := func() *GVal {
		return &GVal{Tuple: []*GVal{{T: p.FreshConst("n", SInt), Typ: types.Typ[types.Int]}, {T: p.FreshConst("werr", SErr), Typ: errType()}}, Typ: in.Type()}
	}
	varargText := func(fn string, a *GVal, nl bool) *Term {
		// the text written for the operand list a
		at := fr.term(a)
		p.DeclareFun(fn, []*Sort{at.S}, SStr)
		generic := App(fn, SStr, at)
		if nl {
			// Println of exactly one string operand writes that string and a newline
			one := And(Eq(w.SlLen(at), IntLit(1)), VIs("VStr", Select(w.SlArr(at), IntLit(0))))
			return Ite(one, App("gs.cat", SStr, VStrOf(Select(w.SlArr(at), IntLit(0))), w.StrLit("\n")), generic)
		}
		return generic
	}
	switch name {
	case "fmt.Fprintf", "fmt.Fprintln", "fmt.Fprint":
		use(name + " writes to the given stream only, returns, never panics; writes to standard error are not standard output")
		sr := fr.stream(args[0])
		if sr == nil {
			ex.unsupp("%s to an unknown writer", name)
			return nErr(), true
		}
		var text *Term
		if name == "fmt.Fprintf" {
			ft := fr.term(args[1])
			at := fr.term(args[2])
			p.DeclareFun("fmt.sprintf", []*Sort{SStr, at.S}, SStr)
			text = App("fmt.sprintf", SStr, ft, at)
		} else {
			text = varargText("fmt.sprintln", args[1], name == "fmt.Fprintln")
		}
		fr.emit(sr, text)
		return nErr(), true
	case "fmt.Println", "fmt.Print":
		use("fmt.Println writes its operands and a newline to standard output as one write; for a single string operand s the text is s followed by \"\\n\"")
		fr.emit(IntLit(osFiles["Stdout"]), varargText("fmt.sprintln", args[0], name == "fmt.Println"))
		return nErr(), true
	case "fmt.Printf":
		use("fmt.Printf writes to standard output")
		ft := fr.term(args[0])
		at := fr.term(args[1])
		p.DeclareFun("fmt.sprintf", []*Sort{SStr, at.S}, SStr)
		fr.emit(IntLit(osFiles["Stdout"]), App("fmt.sprintf", SStr, ft, at))
		return nErr(), true
	case "flag.Bool", "flag.String":
		use("flag: Bool/String register a flag and return a pointer to its value; Parse assigns the registered values from the command line, writes diagnostics to standard error only, and may terminate the process with status 2 on a malformed command line; Args returns the remaining arguments; PrintDefaults writes to standard error")
		var t types.Type = types.Typ[types.Bool]
		if name == "flag.String" {
			t = types.Typ[types.String]
		}
		c := ex.newCell("flag@"+in.Name(), t, w.SortOf(t), in)
		ex.st.cells[c] = fr.term(args[1])
		ex.flagCells = append(ex.flagCells, c)
		if ex.flagNames == nil {
			ex.flagNames = map[*Cell]*Term{}
		}
		ex.flagNames[c] = fr.term(args[0]) // the name the flag is registered under
		return &GVal{Ptr: &Ptr{Cell: c}, Typ: in.Type()}, true
	case "flag.Parse":
		for _, c := range ex.flagCells {
			v := p.FreshConst("flagval", c.sort)
			ex.st.cells[c] = v
			ex.addFact(ex.typeFacts(v, c.typ))
		}
		return &GVal{Typ: in.Type()}, true
	case "flag.Args":
		st := types.NewSlice(types.Typ[types.String])
		v := p.FreshConst("flagArgs", w.SortOf(st))
		ex.addFact(ex.typeFacts(v, st))
		ex.addFact(And(Le(IntLit(0), w.SlLen(v)), Le(w.SlLen(v), maxLen)))
		q := mkBoundVar("q!a", SInt)
		ex.addFact(mkQuantPat([]*Term{q}, Implies(And(Le(IntLit(0), q), Lt(q, w.SlLen(v))), ex.typeFacts(Select(w.SlArr(v), q), types.Typ[types.String])), Select(w.SlArr(v), q)))
		return &GVal{T: v, Typ: in.Type()}, true
	case "flag.PrintDefaults":
		p.DeclareFun("flag.defaultsText", nil, SStr)
		fr.emit(IntLit(osFiles["Stderr"]), App("flag.defaultsText", SStr))
		return &GVal{Typ: in.Type()}, true
	case "io/ioutil.ReadFile", "os.ReadFile":
		use("ioutil.ReadFile returns the contents of the named file or an error; it writes nothing to the standard streams")
		bs := w.sliceSort(SBV8)
		nm := fr.term(args[0])
		p.DeclareFun("file.bytes", []*Sort{SStr}, bs.S)
		p.DeclareFun("file.ok", []*Sort{SStr}, SBool)
		p.DeclareFun("file.errid", []*Sort{SStr}, SInt)
		b := App("file.bytes", bs.S, nm)
		ex.addFact(And(Le(IntLit(0), w.SlLen(b)), Le(w.SlLen(b), maxLen)))
		e := Ite(App("file.ok", SBool, nm), mk("ErrNil", SErr), App("ErrOther", SErr, App("file.errid", SInt, nm)))
		return &GVal{Tuple: []*GVal{{T: b, Typ: types.NewSlice(types.Typ[types.Uint8]), Fresh: TTrue}, {T: e, Typ: errType()}}, Typ: in.Type()}, true
	case "io/ioutil.ReadAll", "io.ReadAll":
		use("ioutil.ReadAll(os.Stdin) returns everything readable from standard input or an error; it writes nothing to the standard streams")
		sr := fr.stream(args[0])
		if sr == nil {
			ex.unsupp("%s from an unknown reader", name)
		}
		bs := w.sliceSort(SBV8)
		p.DeclareFun("stdin.bytes", nil, bs.S)
		p.DeclareFun("stdin.ok", nil, SBool)
		p.DeclareFun("stdin.errid", nil, SInt)
		b := App("stdin.bytes", bs.S)
		ex.addFact(And(Le(IntLit(0), w.SlLen(b)), Le(w.SlLen(b), maxLen)))
		e := Ite(App("stdin.ok", SBool), mk("ErrNil", SErr), App("ErrOther", SErr, App("stdin.errid", SInt)))
		if sr != nil {
			fr.oblige("safe", "reads-standard-input", []string{"C19"}, Eq(sr, IntLit(osFiles["Stdin"])), in.Pos())
		}
		return &GVal{Tuple: []*GVal{{T: b, Typ: types.NewSlice(types.Typ[types.Uint8]), Fresh: TTrue}, {T: e, Typ: errType()}}, Typ: in.Type()}, true
	case "os.Exit":
		use("os.Exit(code) terminates the process with that status")
		already := fr.ioGet("exited", SBool)
		code := fr.ioGet("exitCode", SInt)
		ex.st.ghost["exitCode"] = Ite(already, code, fr.term(args[0]))
		ex.st.ghost["exited"] = TTrue
		return &GVal{Typ: in.Type()}, true
	}
	return nil, false
}
