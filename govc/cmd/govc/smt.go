package main

// SMT term layer: hash-consed terms, sorts, printing with sharing.

import (
	"fmt"
	"sort"
	"strconv"
	"strings"
)

type Sort struct{ S string }

var sortTab = map[string]*Sort{}

func mkSort(s string) *Sort {
	if x, ok := sortTab[s]; ok {
		return x
	}
	x := &Sort{s}
	sortTab[s] = x
	return x
}

var (
	SInt  = mkSort("Int")
	SBool = mkSort("Bool")
	SStr  = mkSort("Str")
	SF64  = mkSort("F64")
	SVal  = mkSort("Val")
	SNode = mkSort("Node")
	SErr  = mkSort("Err")
	SBV8  = mkSort("(_ BitVec 8)")
	SBV32 = mkSort("(_ BitVec 32)")
	SBV64 = mkSort("(_ BitVec 64)")
	SUnit = mkSort("Unit")
)

func SArray(k, v *Sort) *Sort { return mkSort("(Array " + k.S + " " + v.S + ")") }
func (s *Sort) IsBV() bool   { return strings.HasPrefix(s.S, "(_ BitVec") }
func (s *Sort) BVWidth() int {
	n, _ := strconv.Atoi(strings.TrimSuffix(strings.TrimPrefix(s.S, "(_ BitVec "), ")"))
	return n
}
func SBV(w int) *Sort { return mkSort(fmt.Sprintf("(_ BitVec %d)", w)) }
func (s *Sort) IsArray() bool { return strings.HasPrefix(s.S, "(Array ") }

// ArrayParts returns key and value sorts of an array sort.
func (s *Sort) ArrayParts() (*Sort, *Sort) {
	inner := strings.TrimSuffix(strings.TrimPrefix(s.S, "(Array "), ")")
	// split at top-level space
	depth := 0
	for i, c := range inner {
		switch c {
		case '(':
			depth++
		case ')':
			depth--
		case ' ':
			if depth == 0 {
				return mkSort(inner[:i]), mkSort(inner[i+1:])
			}
		}
	}
	panic("bad array sort " + s.S)
}

type Term struct {
	Head string
	Args []*Term
	S    *Sort
	Bind []*Term // bound variables for forall/exists
	id   int
	open bool // mentions a bound variable
}

var termTab = map[string]*Term{}
var termCount int

func mk(head string, s *Sort, args ...*Term) *Term {
	var sb strings.Builder
	sb.WriteString(head)
	sb.WriteByte('|')
	sb.WriteString(s.S)
	open := false
	for _, a := range args {
		if a == nil {
			panic("nil arg in " + head)
		}
		sb.WriteByte(',')
		sb.WriteString(strconv.Itoa(a.id))
		if a.open {
			open = true
		}
	}
	k := sb.String()
	if t, ok := termTab[k]; ok {
		return t
	}
	termCount++
	t := &Term{Head: head, Args: args, S: s, id: termCount, open: open}
	termTab[k] = t
	return t
}

func mkBoundVar(name string, s *Sort) *Term {
	t := mk(name, s)
	t.open = true
	return t
}

func mkQuant(q string, vars []*Term, body *Term) *Term {
	var sb strings.Builder
	sb.WriteString(q + "|")
	for _, v := range vars {
		sb.WriteString(v.Head + ":" + v.S.S + ",")
	}
	sb.WriteString(strconv.Itoa(body.id))
	k := sb.String()
	if t, ok := termTab[k]; ok {
		return t
	}
	termCount++
	// open iff body mentions bound vars other than ours
	open := false
	fv := map[*Term]bool{}
	collectBound(body, fv, map[int]bool{})
	for v := range fv {
		mine := false
		for _, w := range vars {
			if w == v {
				mine = true
			}
		}
		if !mine {
			open = true
		}
	}
	t := &Term{Head: q, Args: []*Term{body}, S: SBool, Bind: vars, id: termCount, open: open}
	termTab[k] = t
	return t
}

func collectBound(t *Term, out map[*Term]bool, seen map[int]bool) {
	if !t.open || seen[t.id] {
		return
	}
	seen[t.id] = true
	if len(t.Args) == 0 && t.Bind == nil {
		out[t] = true
		return
	}
	inner := map[*Term]bool{}
	for _, a := range t.Args {
		collectBound(a, inner, seen)
	}
	for v := range inner {
		bound := false
		for _, w := range t.Bind {
			if w == v {
				bound = true
			}
		}
		if !bound {
			out[v] = true
		}
	}
}

// ---- constructors ----

var (
	TTrue  = mk("true", SBool)
	TFalse = mk("false", SBool)
)

func IntLit(n int64) *Term {
	if n < 0 {
		if n == -9223372036854775808 {
			return mk("(- 9223372036854775808)", SInt)
		}
		return mk(fmt.Sprintf("(- %d)", -n), SInt)
	}
	return mk(strconv.FormatInt(n, 10), SInt)
}
func IntLitStr(s string) *Term {
	if strings.HasPrefix(s, "-") {
		return mk("(- "+s[1:]+")", SInt)
	}
	return mk(s, SInt)
}
func BVLit(v uint64, w int) *Term {
	if w < 64 {
		v &= (1 << uint(w)) - 1
	}
	return mk(fmt.Sprintf("(_ bv%d %d)", v, w), SBV(w))
}
func BoolLit(b bool) *Term {
	if b {
		return TTrue
	}
	return TFalse
}
func Const(name string, s *Sort) *Term { return mk(name, s) }

func Not(a *Term) *Term {
	if a == TTrue {
		return TFalse
	}
	if a == TFalse {
		return TTrue
	}
	if a.Head == "not" && len(a.Args) == 1 {
		return a.Args[0]
	}
	return mk("not", SBool, a)
}
func And(xs ...*Term) *Term {
	var out []*Term
	seen := map[int]bool{}
	for _, x := range xs {
		if x == TTrue {
			continue
		}
		if x == TFalse {
			return TFalse
		}
		if x.Head == "and" && x.Bind == nil {
			for _, y := range x.Args {
				if !seen[y.id] {
					seen[y.id] = true
					out = append(out, y)
				}
			}
			continue
		}
		if !seen[x.id] {
			seen[x.id] = true
			out = append(out, x)
		}
	}
	if len(out) == 0 {
		return TTrue
	}
	if len(out) == 1 {
		return out[0]
	}
	return mk("and", SBool, out...)
}
func Or(xs ...*Term) *Term {
	var out []*Term
	seen := map[int]bool{}
	for _, x := range xs {
		if x == TFalse {
			continue
		}
		if x == TTrue {
			return TTrue
		}
		if !seen[x.id] {
			seen[x.id] = true
			out = append(out, x)
		}
	}
	if len(out) == 0 {
		return TFalse
	}
	if len(out) == 1 {
		return out[0]
	}
	return mk("or", SBool, out...)
}
func Implies(a, b *Term) *Term {
	if a == TTrue {
		return b
	}
	if a == TFalse || b == TTrue {
		return TTrue
	}
	return mk("=>", SBool, a, b)
}
func isIntLitTerm(t *Term) bool {
	if len(t.Args) != 0 || t.S != SInt || t.Head == "" {
		return false
	}
	c := t.Head[0]
	return (c >= '0' && c <= '9') || strings.HasPrefix(t.Head, "(- ")
}

func Eq(a, b *Term) *Term {
	if a == b {
		return TTrue
	}
	if isIntLitTerm(a) && isIntLitTerm(b) {
		return TFalse // distinct integer literals (hash-consing makes equal ones identical)
	}
	if a.S != b.S {
		panic(fmt.Sprintf("Eq sort mismatch: %s : %s  vs  %s : %s", a.Short(), a.S.S, b.Short(), b.S.S))
	}
	return mk("=", SBool, a, b)
}
func Ite(c, a, b *Term) *Term {
	if c == TTrue {
		return a
	}
	if c == TFalse {
		return b
	}
	if a == b {
		return a
	}
	if a.S != b.S {
		panic(fmt.Sprintf("Ite sort mismatch: %s vs %s", a.S.S, b.S.S))
	}
	if a.S == SBool {
		if a == TTrue && b == TFalse {
			return c
		}
		if a == TFalse && b == TTrue {
			return Not(c)
		}
	}
	return mk("ite", a.S, c, a, b)
}
func App(f string, s *Sort, args ...*Term) *Term { return mk(f, s, args...) }

func Select(a, i *Term) *Term {
	_, v := a.S.ArrayParts()
	// light simplification: select(store(a,i,v),i) = v
	if a.Head == "store" && a.Args[1] == i {
		return a.Args[2]
	}
	return mk("select", v, a, i)
}
func Store(a, i, v *Term) *Term {
	_, vs := a.S.ArrayParts()
	if vs != v.S {
		panic(fmt.Sprintf("Store sort mismatch: array %s value %s", a.S.S, v.S.S))
	}
	return mk("store", a.S, a, i, v)
}
func ConstArray(s *Sort, v *Term) *Term {
	return mk("(as const "+s.S+")", s, v)
}

func Add(a, b *Term) *Term { return mk("+", SInt, a, b) }
func Sub(a, b *Term) *Term { return mk("-", SInt, a, b) }
func Le(a, b *Term) *Term  { return mk("<=", SBool, a, b) }
func Lt(a, b *Term) *Term  { return mk("<", SBool, a, b) }
func Ge(a, b *Term) *Term  { return mk(">=", SBool, a, b) }
func Gt(a, b *Term) *Term  { return mk(">", SBool, a, b) }

func Forall(vars []*Term, body *Term) *Term {
	if body == TTrue {
		return TTrue
	}
	return mkQuant("forall", vars, body)
}
func Exists(vars []*Term, body *Term) *Term { return mkQuant("exists", vars, body) }

// mkQuantPat: universally quantified body with an explicit trigger.
func mkQuantPat(vars []*Term, body, trig *Term) *Term {
	ann := mk("!pat", SBool, body, trig)
	ann.open = true
	return mkQuant("forall", vars, ann)
}

// ---- substitution ----

func Subst(t *Term, m map[*Term]*Term) *Term {
	if len(m) == 0 {
		return t
	}
	memo := map[int]*Term{}
	var rec func(t *Term) *Term
	rec = func(t *Term) *Term {
		if r, ok := m[t]; ok {
			return r
		}
		if len(t.Args) == 0 {
			return t
		}
		if r, ok := memo[t.id]; ok {
			return r
		}
		args := make([]*Term, len(t.Args))
		changed := false
		for i, a := range t.Args {
			args[i] = rec(a)
			if args[i] != a {
				changed = true
			}
		}
		var r *Term
		if !changed {
			r = t
		} else if t.Bind != nil {
			r = mkQuant(t.Head, t.Bind, args[0])
		} else {
			r = rebuild(t, args)
		}
		memo[t.id] = r
		return r
	}
	return rec(t)
}

func rebuild(t *Term, args []*Term) *Term {
	switch t.Head {
	case "and":
		return And(args...)
	case "or":
		return Or(args...)
	case "not":
		return Not(args[0])
	case "=>":
		return Implies(args[0], args[1])
	case "ite":
		return Ite(args[0], args[1], args[2])
	case "=":
		return Eq(args[0], args[1])
	case "select":
		return Select(args[0], args[1])
	}
	return mk(t.Head, t.S, args...)
}

// ---- printing ----

func (t *Term) Short() string {
	s := t.String()
	if len(s) > 200 {
		return s[:200] + "..."
	}
	return s
}

func (t *Term) String() string {
	var sb strings.Builder
	printTerm(&sb, t, nil)
	return sb.String()
}

func printTerm(sb *strings.Builder, t *Term, names map[int]string) {
	if names != nil {
		if n, ok := names[t.id]; ok {
			sb.WriteString(n)
			return
		}
	}
	if t.Bind != nil {
		sb.WriteString("(" + t.Head + " (")
		for _, v := range t.Bind {
			sb.WriteString("(" + v.Head + " " + v.S.S + ")")
		}
		sb.WriteString(") ")
		printTerm(sb, t.Args[0], names)
		sb.WriteString(")")
		return
	}
	if len(t.Args) == 0 {
		sb.WriteString(t.Head)
		return
	}
	if t.Head == "!pat" {
		sb.WriteString("(! ")
		printTerm(sb, t.Args[0], names)
		sb.WriteString(" :pattern (")
		printTerm(sb, t.Args[1], names)
		sb.WriteString("))")
		return
	}
	sb.WriteString("(" + t.Head)
	for _, a := range t.Args {
		sb.WriteByte(' ')
		if strings.HasPrefix(t.Head, "(as const") {
			// cvc5 accepts only syntactic values as array defaults: print them in full
			printTerm(sb, a, nil)
		} else {
			printTerm(sb, a, names)
		}
	}
	sb.WriteByte(')')
}

// Script builds an SMT-LIB script from assertions, sharing common subterms via define-fun.
type Script struct {
	Decls   []string // extra declarations (consts, funs) in order
	Asserts []*Term
}

// collectConsts finds all 0-ary non-literal symbols (free constants) in terms.
func collectSyms(ts []*Term, visit func(t *Term)) {
	seen := map[int]bool{}
	var rec func(t *Term)
	rec = func(t *Term) {
		if seen[t.id] {
			return
		}
		seen[t.id] = true
		visit(t)
		for _, a := range t.Args {
			rec(a)
		}
	}
	for _, t := range ts {
		rec(t)
	}
}

func isLiteralHead(h string) bool {
	if h == "true" || h == "false" {
		return true
	}
	if h == "" {
		return true
	}
	c := h[0]
	return (c >= '0' && c <= '9') || c == '(' || c == '#' || c == '"'
}

// PrintAsserts prints assertions with shared closed subterms hoisted into define-funs.
func PrintAsserts(sb *strings.Builder, asserts []*Term, prefix string) {
	ref := map[int]int{}
	order := []*Term{}
	seen := map[int]bool{}
	var rec func(t *Term)
	rec = func(t *Term) {
		ref[t.id]++
		if seen[t.id] {
			return
		}
		seen[t.id] = true
		for _, a := range t.Args {
			rec(a)
		}
		order = append(order, t)
	}
	for _, a := range asserts {
		rec(a)
	}
	names := map[int]string{}
	n := 0
	for _, t := range order {
		if ref[t.id] > 1 && len(t.Args) > 0 && !t.open && termSize(t, 3) >= 3 {
			var b strings.Builder
			printTerm(&b, t, names)
			name := fmt.Sprintf("%s%d", prefix, n)
			n++
			fmt.Fprintf(sb, "(define-fun %s () %s %s)\n", name, t.S.S, b.String())
			names[t.id] = name
		}
	}
	for _, a := range asserts {
		sb.WriteString("(assert ")
		printTerm(sb, a, names)
		sb.WriteString(")\n")
	}
}

func termSize(t *Term, cap int) int {
	n := 1
	for _, a := range t.Args {
		n += termSize(a, cap-n)
		if n >= cap {
			return n
		}
	}
	return n
}

func sortedKeys(m map[string]string) []string {
	ks := make([]string, 0, len(m))
	for k := range m {
		ks = append(ks, k)
	}
	sort.Strings(ks)
	return ks
}

// Args0 returns the guard of an implication (or true).
func (t *Term) Args0() *Term {
	if t.Head == "=>" && len(t.Args) == 2 {
		return t.Args[0]
	}
	return TTrue
}
