package main

// Contract language: parsing of //@ comment files and contract expressions.

import (
	"fmt"
	"os"
	"regexp"
	"strconv"
	"strings"
)

type CExpr struct {
	Op   string // "id","int","str","rune","bool","nil","call","field","index","un","bin","forall","exists","old","cond"
	Name string // identifier / operator / field / literal text
	Args []*CExpr
	// quantifier binder
	Var  string
	VarT string
}

func (e *CExpr) String() string {
	switch e.Op {
	case "id", "int", "bool", "nil":
		return e.Name
	case "str":
		return strconv.Quote(e.Name)
	case "rune":
		return "'" + e.Name + "'"
	case "call":
		var a []string
		for _, x := range e.Args {
			a = append(a, x.String())
		}
		return e.Name + "(" + strings.Join(a, ", ") + ")"
	case "field":
		return e.Args[0].String() + "." + e.Name
	case "index":
		return e.Args[0].String() + "[" + e.Args[1].String() + "]"
	case "un":
		return e.Name + e.Args[0].String()
	case "bin":
		return "(" + e.Args[0].String() + " " + e.Name + " " + e.Args[1].String() + ")"
	case "forall", "exists":
		return "(" + e.Op + " " + e.Var + " " + e.VarT + " :: " + e.Args[0].String() + ")"
	case "old":
		return "old(" + e.Args[0].String() + ")"
	case "entry":
		return `\entry(` + e.Args[0].String() + ")"
	case "cond":
		return "(" + e.Args[0].String() + " ? " + e.Args[1].String() + " : " + e.Args[2].String() + ")"
	}
	return "?"
}

type Clause struct {
	Kind   string // requires, ensures, invariant, decreases, assigns, lemma
	Label  string
	Props  []string
	Expr   *CExpr
	Text   string
	Tier   string // "", "thorough"
	Assign []string
}

type LoopSpec struct {
	Ordinal    int
	Invariants []*Clause
	Decreases  []*Clause
}

type Contract struct {
	Func      string
	Requires  []*Clause
	Ensures   []*Clause
	Assigns   []string // heap fields "Type.field", or "\nothing"
	HasAssigns bool
	Decreases []*Clause
	Loops     map[int]*LoopSpec
	Trusted   bool     // contract assumed, body not verified (listed)
	Inline    bool     // always inline at call sites
	Props     []string // default property tags for auto obligations
	PanicsWhen []*Clause
	UsesCallRecords bool // some clause mentions \ret(f, i) or \arg(f, i)
	NoReturnErrSeen bool
	Skip      bool // do not verify the body (outside subset), reason in Note
	Note      string
	Pure      bool
	Fresh     bool // result is freshly allocated
	Ghost     map[string]string
	GhostParams [][2]string            // ghost parameters (name, type)
	CallBind  map[string]map[string]*CExpr // callee -> ghost name -> expression (evaluated at the call site)
}

type Lemma struct {
	Name  string
	Vars  [][2]string // name, type
	Hyps  []*Clause
	Concl []*Clause
	Props []string
	Induct string
	Trigger *CExpr
	CheckOnly bool // proved as an obligation, never offered as an axiom
}

type Macro struct {
	Name   string
	Params []string
	Body   *CExpr
}

type ContractSet struct {
	Macros map[string]*Macro
	Funcs  map[string]*Contract
	Order  []string
	Lemmas []*Lemma
	Axioms []*Clause // assumed facts about spec functions (listed in evidence)
}

var reTag = regexp.MustCompile(`^\{([A-Z0-9, ]+)\}\s*`)
var reLabel = regexp.MustCompile(`^\[([A-Za-z0-9_.:<>=+\-/ ]+)\]\s*`)

func parseClauseHead(rest string) (props []string, label string, tier string, body string) {
	rest = strings.TrimSpace(rest)
	for {
		if m := reTag.FindStringSubmatch(rest); m != nil {
			for _, p := range strings.Split(m[1], ",") {
				props = append(props, strings.TrimSpace(p))
			}
			rest = rest[len(m[0]):]
			continue
		}
		if m := reLabel.FindStringSubmatch(rest); m != nil {
			label = m[1]
			rest = rest[len(m[0]):]
			continue
		}
		if strings.HasPrefix(rest, "@internal ") {
			tier = "internal"
			rest = strings.TrimSpace(rest[len("@internal "):])
			continue
		}
		if strings.HasPrefix(rest, "@thorough ") {
			tier = "thorough"
			rest = strings.TrimSpace(rest[len("@thorough "):])
			continue
		}
		break
	}
	return props, label, tier, rest
}

func ParseContractFile(path string, cs *ContractSet) error {
	data, err := os.ReadFile(path)
	if err != nil {
		return err
	}
	var cur *Contract
	var curLemma *Lemma
	lines := strings.Split(string(data), "\n")
	// join continuation lines: "//@ .. text"
	var joined []string
	var lineNos []int
	for i, ln := range lines {
		t := strings.TrimSpace(ln)
		if !strings.HasPrefix(t, "//@") {
			continue
		}
		t = strings.TrimSpace(t[3:])
		if strings.HasPrefix(t, "..") && len(joined) > 0 {
			joined[len(joined)-1] += " " + strings.TrimSpace(t[2:])
			continue
		}
		joined = append(joined, t)
		lineNos = append(lineNos, i+1)
	}
	for idx, t := range joined {
		if t == "" || strings.HasPrefix(t, "#") {
			continue
		}
		fail := func(msg string) error {
			return fmt.Errorf("%s:%d: %s: %q", path, lineNos[idx], msg, t)
		}
		word, rest := splitWord(t)
		switch word {
		case "func":
			name := strings.TrimSpace(rest)
			if i := strings.Index(name, "#"); i >= 0 {
				name = strings.TrimSpace(name[:i]) + "#" + strings.TrimSpace(name[i+1:])
			}
			cur = &Contract{Func: name, Loops: map[int]*LoopSpec{}, Ghost: map[string]string{}}
			curLemma = nil
			if _, dup := cs.Funcs[name]; dup {
				return fail("duplicate contract")
			}
			cs.Funcs[name] = cur
			cs.Order = append(cs.Order, name)
		case "define":
			// define name(p1, p2) = expr
			eq := strings.Index(rest, "=")
			if eq < 0 {
				return fail("define needs '='")
			}
			head := strings.TrimSpace(rest[:eq])
			lp := strings.Index(head, "(")
			if lp < 0 || !strings.HasSuffix(head, ")") {
				return fail("define name(params) = expr")
			}
			m := &Macro{Name: strings.TrimSpace(head[:lp])}
			for _, pn := range strings.Split(head[lp+1:len(head)-1], ",") {
				if pn = strings.TrimSpace(pn); pn != "" {
					m.Params = append(m.Params, pn)
				}
			}
			e, err := ParseCExpr(strings.TrimSpace(rest[eq+1:]))
			if err != nil {
				return fail(err.Error())
			}
			m.Body = e
			if cs.Macros == nil {
				cs.Macros = map[string]*Macro{}
			}
			cs.Macros[m.Name] = m
		case "lemma":
			curLemma = &Lemma{Name: strings.TrimSpace(rest)}
			cs.Lemmas = append(cs.Lemmas, curLemma)
			cur = nil
		case "axiom":
			props, label, tier, body := parseClauseHead(rest)
			e, err := ParseCExpr(body)
			if err != nil {
				return fail(err.Error())
			}
			cs.Axioms = append(cs.Axioms, &Clause{Kind: "axiom", Label: label, Props: props, Expr: e, Text: body, Tier: tier})
		case "var":
			if curLemma == nil {
				return fail("var outside lemma")
			}
			f := strings.Fields(rest)
			if len(f) != 2 {
				return fail("var name type")
			}
			curLemma.Vars = append(curLemma.Vars, [2]string{f[0], f[1]})
		case "props":
			ps := strings.FieldsFunc(rest, func(r rune) bool { return r == ',' || r == ' ' })
			if cur != nil {
				cur.Props = ps
			} else if curLemma != nil {
				curLemma.Props = ps
			}
		case "requires", "ensures", "decreases", "panics", "assumes":
			if word == "panics" {
				w2, r2 := splitWord(rest)
				if w2 != "when" {
					return fail("expected 'panics when'")
				}
				rest = r2
			}
			props, label, tier, body := parseClauseHead(rest)
			e, err := ParseCExpr(body)
			if err != nil {
				return fail(err.Error())
			}
			cl := &Clause{Kind: word, Label: label, Props: props, Expr: e, Text: body, Tier: tier}
			if cur != nil && (strings.Contains(body, `\ret(`) || strings.Contains(body, `\arg(`)) {
				cur.UsesCallRecords = true
			}
			if curLemma != nil {
				if word == "requires" {
					curLemma.Hyps = append(curLemma.Hyps, cl)
				} else if word == "ensures" {
					curLemma.Concl = append(curLemma.Concl, cl)
				} else {
					return fail("bad lemma clause")
				}
				continue
			}
			if cur == nil {
				return fail("clause outside func")
			}
			switch word {
			case "requires":
				cur.Requires = append(cur.Requires, cl)
			case "ensures":
				cur.Ensures = append(cur.Ensures, cl)
			case "assumes":
				cl.Kind = "assumes"
				cur.Ensures = append(cur.Ensures, cl)
			case "decreases":
				cur.Decreases = append(cur.Decreases, cl)
			case "panics":
				cur.PanicsWhen = append(cur.PanicsWhen, cl)
			}
		case "assigns":
			if cur == nil {
				return fail("clause outside func")
			}
			cur.HasAssigns = true
			for _, a := range strings.Split(rest, ",") {
				a = strings.TrimSpace(a)
				if a != "" && a != `\nothing` {
					cur.Assigns = append(cur.Assigns, a)
				}
			}
		case "ghost":
			f := strings.Fields(rest)
			if len(f) != 2 || cur == nil {
				return fail("ghost name type")
			}
			cur.GhostParams = append(cur.GhostParams, [2]string{f[0], f[1]})
		case "call":
			// call <callee> <ghost> = <expr>
			if cur == nil {
				return fail("clause outside func")
			}
			eq := strings.Index(rest, "=")
			if eq < 0 {
				return fail("call callee ghost = expr")
			}
			hf := strings.Fields(rest[:eq])
			if len(hf) != 2 {
				return fail("call callee ghost = expr")
			}
			e, err := ParseCExpr(strings.TrimSpace(rest[eq+1:]))
			if err != nil {
				return fail(err.Error())
			}
			if cur.CallBind == nil {
				cur.CallBind = map[string]map[string]*CExpr{}
			}
			if cur.CallBind[hf[0]] == nil {
				cur.CallBind[hf[0]] = map[string]*CExpr{}
			}
			cur.CallBind[hf[0]][hf[1]] = e
		case "trusted":
			cur.Trusted = true
			cur.Note = strings.TrimSpace(rest)
		case "skip":
			cur.Skip = true
			cur.Note = strings.TrimSpace(rest)
		case "inline":
			cur.Inline = true
		case "pure":
			cur.Pure = true
		case "fresh":
			cur.Fresh = true
		case "checkonly":
			if curLemma != nil {
				curLemma.CheckOnly = true
			}
		case "trigger":
			if curLemma == nil {
				return fail("trigger outside lemma")
			}
			e, err := ParseCExpr(rest)
			if err != nil {
				return fail(err.Error())
			}
			curLemma.Trigger = e
		case "induct":
			if curLemma != nil {
				curLemma.Induct = strings.TrimSpace(rest)
			}
		case "loop":
			if cur == nil {
				return fail("clause outside func")
			}
			w2, r2 := splitWord(rest)
			n, err := strconv.Atoi(w2)
			if err != nil {
				return fail("loop ordinal")
			}
			w3, r3 := splitWord(r2)
			ls := cur.Loops[n]
			if ls == nil {
				ls = &LoopSpec{Ordinal: n}
				cur.Loops[n] = ls
			}
			props, label, tier, body := parseClauseHead(r3)
			e, err := ParseCExpr(body)
			if err != nil {
				return fail(err.Error())
			}
			cl := &Clause{Kind: w3, Label: label, Props: props, Expr: e, Text: body, Tier: tier}
			switch w3 {
			case "invariant":
				ls.Invariants = append(ls.Invariants, cl)
			case "decreases":
				ls.Decreases = append(ls.Decreases, cl)
			default:
				return fail("loop clause kind")
			}
		default:
			return fail("unknown clause")
		}
	}
	return nil
}

func splitWord(s string) (string, string) {
	s = strings.TrimSpace(s)
	i := strings.IndexAny(s, " \t")
	if i < 0 {
		return s, ""
	}
	return s[:i], strings.TrimSpace(s[i+1:])
}

// ---- expression parser ----

type ctok struct {
	kind string // id int str rune op eof
	text string
}

func clex(s string) ([]ctok, error) {
	var out []ctok
	i := 0
	for i < len(s) {
		c := s[i]
		switch {
		case c == ' ' || c == '\t':
			i++
		case c >= '0' && c <= '9':
			j := i
			for j < len(s) && (s[j] >= '0' && s[j] <= '9' || s[j] == 'x' || (s[j] >= 'a' && s[j] <= 'f') || (s[j] >= 'A' && s[j] <= 'F')) {
				j++
			}
			out = append(out, ctok{"int", s[i:j]})
			i = j
		case c == '_' || c == '\\' || c == '$' || (c >= 'a' && c <= 'z') || (c >= 'A' && c <= 'Z'):
			j := i + 1
			for j < len(s) && (s[j] == '_' || s[j] == '$' || (s[j] >= 'a' && s[j] <= 'z') || (s[j] >= 'A' && s[j] <= 'Z') || (s[j] >= '0' && s[j] <= '9')) {
				j++
			}
			out = append(out, ctok{"id", s[i:j]})
			i = j
		case c == '"':
			j := i + 1
			for j < len(s) && s[j] != '"' {
				if s[j] == '\\' {
					j++
				}
				j++
			}
			if j >= len(s) {
				return nil, fmt.Errorf("unterminated string")
			}
			u, err := strconv.Unquote(s[i : j+1])
			if err != nil {
				return nil, err
			}
			out = append(out, ctok{"str", u})
			i = j + 1
		case c == '\'':
			j := i + 1
			for j < len(s) && s[j] != '\'' {
				if s[j] == '\\' {
					j++
				}
				j++
			}
			if j >= len(s) {
				return nil, fmt.Errorf("unterminated rune")
			}
			u, _, _, err := strconv.UnquoteChar(s[i+1:j], '\'')
			if err != nil {
				return nil, err
			}
			out = append(out, ctok{"rune", strconv.Itoa(int(u))})
			i = j + 1
		default:
			ops := []string{"<==>", "==>", "::", "==", "!=", "<=", ">=", "&&", "||", "<<", ">>", "&^",
				"+", "-", "*", "/", "%", "<", ">", "!", "(", ")", "[", "]", ",", ".", "?", ":", "&", "|", "^"}
			found := false
			for _, op := range ops {
				if strings.HasPrefix(s[i:], op) {
					out = append(out, ctok{"op", op})
					i += len(op)
					found = true
					break
				}
			}
			if !found {
				return nil, fmt.Errorf("bad character %q at %d", c, i)
			}
		}
	}
	out = append(out, ctok{"eof", ""})
	return out, nil
}

type cparser struct {
	toks []ctok
	i    int
}

func ParseCExpr(s string) (*CExpr, error) {
	toks, err := clex(s)
	if err != nil {
		return nil, fmt.Errorf("%v in %q", err, s)
	}
	p := &cparser{toks: toks}
	var e *CExpr
	func() {
		defer func() {
			if r := recover(); r != nil {
				err = fmt.Errorf("%v in %q", r, s)
			}
		}()
		e = p.expr(0)
		if p.peek().kind != "eof" {
			panic("trailing tokens at " + p.peek().text)
		}
	}()
	return e, err
}

func (p *cparser) peek() ctok { return p.toks[p.i] }
func (p *cparser) next() ctok { t := p.toks[p.i]; p.i++; return t }
func (p *cparser) expect(op string) {
	t := p.next()
	if t.text != op {
		panic("expected " + op + " got " + t.text)
	}
}

var binPrec = map[string]int{
	"<==>": 1, "==>": 2, "?": 3, "||": 4, "&&": 5,
	"==": 6, "!=": 6, "<": 6, "<=": 6, ">": 6, ">=": 6,
	"+": 8, "-": 8, "|": 8, "^": 8,
	"*": 9, "/": 9, "%": 9, "<<": 9, ">>": 9, "&": 9, "&^": 9,
}

func (p *cparser) expr(min int) *CExpr {
	left := p.unary()
	for {
		t := p.peek()
		if t.kind != "op" {
			return left
		}
		prec, ok := binPrec[t.text]
		if !ok || prec < min {
			return left
		}
		p.next()
		if t.text == "?" {
			a := p.expr(0)
			p.expect(":")
			b := p.expr(prec)
			left = &CExpr{Op: "cond", Args: []*CExpr{left, a, b}}
			continue
		}
		var right *CExpr
		if t.text == "==>" || t.text == "<==>" {
			right = p.expr(prec) // right assoc
		} else {
			right = p.expr(prec + 1)
		}
		left = &CExpr{Op: "bin", Name: t.text, Args: []*CExpr{left, right}}
	}
}

func (p *cparser) unary() *CExpr {
	t := p.peek()
	if t.kind == "op" && (t.text == "!" || t.text == "-" || t.text == "^") {
		p.next()
		return &CExpr{Op: "un", Name: t.text, Args: []*CExpr{p.unary()}}
	}
	return p.postfix(p.primary())
}

func (p *cparser) postfix(e *CExpr) *CExpr {
	for {
		t := p.peek()
		if t.kind != "op" {
			return e
		}
		switch t.text {
		case ".":
			p.next()
			id := p.next()
			if id.kind != "id" {
				panic("field name expected")
			}
			e = &CExpr{Op: "field", Name: id.text, Args: []*CExpr{e}}
		case "[":
			p.next()
			idx := p.expr(0)
			p.expect("]")
			e = &CExpr{Op: "index", Args: []*CExpr{e, idx}}
		case "(":
			if e.Op != "id" {
				return e
			}
			p.next()
			var args []*CExpr
			if p.peek().text != ")" {
				for {
					args = append(args, p.expr(0))
					if p.peek().text == "," {
						p.next()
						continue
					}
					break
				}
			}
			p.expect(")")
			if e.Name == "old" {
				e = &CExpr{Op: "old", Args: args}
			} else if e.Name == `\entry` {
				// the value of an expression when the loop was entered (loop clauses only)
				e = &CExpr{Op: "entry", Args: args}
			} else {
				e = &CExpr{Op: "call", Name: e.Name, Args: args}
			}
		default:
			return e
		}
	}
}

func (p *cparser) primary() *CExpr {
	t := p.next()
	switch t.kind {
	case "int":
		return &CExpr{Op: "int", Name: t.text}
	case "str":
		return &CExpr{Op: "str", Name: t.text}
	case "rune":
		return &CExpr{Op: "rune", Name: t.text}
	case "id":
		switch t.text {
		case "true", "false":
			return &CExpr{Op: "bool", Name: t.text}
		case "nil":
			return &CExpr{Op: "nil", Name: "nil"}
		case "forall", "exists":
			v := p.next()
			ty := p.next()
			tyText := ty.text
			p.expect("::")
			body := p.expr(0)
			return &CExpr{Op: t.text, Var: v.text, VarT: tyText, Args: []*CExpr{body}}
		}
		return &CExpr{Op: "id", Name: t.text}
	case "op":
		if t.text == "(" {
			e := p.expr(0)
			p.expect(")")
			return e
		}
	}
	panic("unexpected token " + t.text)
}
