package main

// Per-function verification driver, spec-function translation, global initialisers.

import (
	"fmt"
	"go/types"
	"os"
	"sort"
	"strings"

	"golang.org/x/tools/go/ssa"
)

var _ = os.Stderr

// ---- spec functions ----

type SpecParam struct {
	Name string
	S    *Sort
	T    types.Type
}

type SpecDef struct {
	Raw     string // verbatim SMT-LIB definition (quantified specs)
	RawDeps []string
	Name    string
	Fn      *ssa.Function
	Params  []SpecParam
	Formals []*Term
	Ret     *Sort
	Tuple   []FieldInfo // tuple result fields
	Body    *Term
	Deps    []string
	done    bool
	busy    bool
	errs    []string
}

func (sd *SpecDef) tupleVals(t *Term) []*GVal {
	var out []*GVal
	for _, f := range sd.Tuple {
		out = append(out, &GVal{T: App(f.Sel, f.S, t), Typ: f.T})
	}
	return out
}

func (p *Prog) specSig(fn *ssa.Function) *SpecDef {
	name := fn.Name()
	if sd, ok := p.specs[name]; ok {
		return sd
	}
	sd := &SpecDef{Name: name, Fn: fn}
	for _, prm := range fn.Params {
		s := p.w.SortOf(prm.Type())
		sd.Params = append(sd.Params, SpecParam{Name: prm.Name(), S: s, T: prm.Type()})
		sd.Formals = append(sd.Formals, Const(name+"$"+prm.Name(), s))
	}
	res := fn.Signature.Results()
	if res.Len() == 1 {
		sd.Ret = p.w.SortOf(res.At(0).Type())
	} else {
		// one tuple datatype per result signature (shared by all functions with these result sorts)
		dn := "Tup"
		for i := 0; i < res.Len(); i++ {
			dn += "_" + sortIdent(p.w.SortOf(res.At(i).Type()))
		}
		for i := 0; i < res.Len(); i++ {
			s := p.w.SortOf(res.At(i).Type())
			sel := fmt.Sprintf("%s_%d", dn, i)
			sd.Tuple = append(sd.Tuple, FieldInfo{Name: fmt.Sprint(i), Sel: sel, S: s, T: res.At(i).Type()})
		}
		if _, ok := p.w.decls[dn]; !ok {
			var sb strings.Builder
			fmt.Fprintf(&sb, "(declare-datatypes ((%s 0)) (((mk_%s", dn, dn)
			for _, f := range sd.Tuple {
				fmt.Fprintf(&sb, " (%s %s)", f.Sel, f.S.S)
			}
			sb.WriteString("))))")
			p.w.addDecl(dn, sb.String())
		}
		sd.Ret = mkSort(dn)
	}
	p.specs[name] = sd
	return sd
}

// loadRawSpecs reads spec functions given directly in SMT-LIB.
func (p *Prog) loadRawSpecs(path string) error {
	data, err := os.ReadFile(path)
	if err != nil {
		return err
	}
	var cur *SpecDef
	var names []string
	text := string(data)
	// {{Name}} placeholders: values of package-level integer constants (AST node types, token types)
	for {
		i := strings.Index(text, "{{")
		if i < 0 {
			break
		}
		j := strings.Index(text[i:], "}}")
		name := text[i+2 : i+j]
		val := "0"
		if strings.HasPrefix(name, "str:") {
			val = p.w.StrLit(strings.TrimPrefix(name, "str:")).Head
		} else if obj := p.pkg.Pkg.Scope().Lookup(name); obj != nil {
			if c, ok := obj.(*types.Const); ok {
				val = c.Val().ExactString()
			}
		} else {
			return fmt.Errorf("raw specs: unknown constant %s", name)
		}
		text = text[:i] + val + text[i+j+2:]
	}
	for _, ln := range strings.Split(text, "\n") {
		if strings.HasPrefix(ln, ";; spec ") {
			f := strings.Fields(strings.TrimPrefix(ln, ";; spec "))
			cur = &SpecDef{Name: f[0], done: true}
			rest := strings.Join(f[1:], " ")
			inBlock := ""
			if k := strings.Index(rest, "@in "); k >= 0 {
				inBlock = strings.TrimSpace(rest[k+4:])
				rest = strings.TrimSpace(rest[:k])
			}
			parts := strings.SplitN(rest, "->", 2)
			cur.Ret = mkSort(strings.TrimSpace(parts[1]))
			if inBlock != "" {
				cur.RawDeps = append(cur.RawDeps, inBlock)
				cur.Raw = " "
			}
			for _, pm := range strings.Split(parts[0], ")") {
				pm = strings.TrimSpace(strings.TrimPrefix(strings.TrimSpace(pm), "("))
				if pm == "" {
					continue
				}
				ff := strings.SplitN(pm, " ", 2)
				s := mkSort(strings.TrimSpace(ff[1]))
				cur.Params = append(cur.Params, SpecParam{Name: ff[0], S: s})
				cur.Formals = append(cur.Formals, Const(cur.Name+"$"+ff[0], s))
			}
			p.specs[cur.Name] = cur
			p.rawOrder = append(p.rawOrder, cur.Name)
			names = append(names, cur.Name)
			continue
		}
		if cur != nil {
			if strings.HasPrefix(strings.TrimSpace(ln), ";") {
				continue
			}
			cur.Raw += ln + "\n"
		}
	}
	// dependencies among raw specs (textual)
	for _, n := range names {
		sd := p.specs[n]
		for _, m := range names {
			if m != n && strings.Contains(sd.Raw, "("+m+" ") {
				sd.RawDeps = append(sd.RawDeps, m)
			}
		}
	}
	return nil
}

func (p *Prog) loadSpecSigs() {
	for _, n := range p.fnames {
		f := p.funcs[n]
		if p.isSpecFunc(f) {
			if sd, ok := p.specs[f.Name()]; ok && sd.Raw != "" {
				continue // the raw SMT definition wins; the Go twin is for native replay
			}
			if specIntrinsics[f.Name()] {
				continue // mapped to the verifier's model of maps
			}
			p.specSig(f)
		}
	}
}

// ensureSpec translates the body of a spec function (lazily).
func (p *Prog) ensureSpec(name string) {
	sd := p.specs[name]
	if sd == nil || sd.done || sd.busy || sd.Raw != "" {
		return
	}
	sd.busy = true
	ex := &Exec{p: p, fn: sd.Fn, fname: "spec:" + name, nameCt: map[string]int{}, pure: true, entryParams: map[string]*GVal{}, freshRefs: map[*Term]bool{}}
	ex.entry = &State{cells: map[*Cell]*Term{}, heap: map[string]*Term{}, ghost: map[string]*Term{}}
	fr := ex.newFrame(sd.Fn, TTrue, "")
	fr.top = true
	var args []*GVal
	for i, prm := range sd.Fn.Params {
		args = append(args, &GVal{T: sd.Formals[i], Typ: prm.Type()})
	}
	before := p.fresh
	fr.run(args, ex.entry.clone())
	// merge returns
	var body *Term
	for i := len(fr.rets) - 1; i >= 0; i-- {
		r := fr.rets[i]
		ex.st = r.st
		var t *Term
		if sd.Tuple != nil {
			var ts []*Term
			for _, v := range r.vals {
				ts = append(ts, fr.term(v))
			}
			t = App("mk_"+sd.Ret.S, sd.Ret, ts...)
		} else {
			t = fr.term(r.vals[0])
		}
		if body == nil {
			body = t
		} else {
			body = Ite(r.cond, t, body)
		}
	}
	if body == nil {
		ex.unsupp("spec function %s has no return", name)
		body = p.FreshConst("nobody", sd.Ret)
	}
	sd.Body = body
	sd.errs = ex.unsupported
	_ = before
	// dependencies
	seen := map[string]bool{}
	collectSyms([]*Term{body}, func(t *Term) {
		if _, ok := p.specs[t.Head]; ok && len(t.Args) > 0 || (ok && len(p.specs[t.Head].Params) == 0) {
			if !seen[t.Head] {
				seen[t.Head] = true
				sd.Deps = append(sd.Deps, t.Head)
			}
		}
	})
	sort.Strings(sd.Deps)
	sd.done = true
	sd.busy = false
	for _, d := range sd.Deps {
		p.ensureSpec(d)
	}
}

// specDefsFor emits definitions of all spec functions reachable from the given names, in dependency order.
func (p *Prog) specDefsFor(roots map[string]bool, uninterp bool) (string, []string) {
	// closure
	need := map[string]bool{}
	rawNeed := map[string]bool{}
	var visit func(n string)
	visit = func(n string) {
		if need[n] || rawNeed[n] {
			return
		}
		if sd := p.specs[n]; sd.Raw != "" {
			rawNeed[n] = true
			for _, d := range sd.RawDeps {
				visit(d)
			}
			return
		}
		need[n] = true
		p.ensureSpec(n)
		for _, d := range p.specs[n].Deps {
			visit(d)
		}
	}
	for r := range roots {
		visit(r)
	}
	var rawText strings.Builder
	for _, n := range p.rawOrder {
		if rawNeed[n] {
			rawText.WriteString(p.specs[n].Raw)
		}
	}
	var names []string
	for n := range need {
		names = append(names, n)
	}
	sort.Strings(names)
	// Tarjan SCC
	index := map[string]int{}
	low := map[string]int{}
	on := map[string]bool{}
	var stack []string
	var sccs [][]string
	idx := 0
	var strong func(v string)
	strong = func(v string) {
		index[v], low[v] = idx, idx
		idx++
		stack = append(stack, v)
		on[v] = true
		for _, w := range p.specs[v].Deps {
			if !need[w] {
				continue
			}
			if _, ok := index[w]; !ok {
				strong(w)
				if low[w] < low[v] {
					low[v] = low[w]
				}
			} else if on[w] && index[w] < low[v] {
				low[v] = index[w]
			}
		}
		if low[v] == index[v] {
			var comp []string
			for {
				w := stack[len(stack)-1]
				stack = stack[:len(stack)-1]
				on[w] = false
				comp = append(comp, w)
				if w == v {
					break
				}
			}
			sort.Strings(comp)
			sccs = append(sccs, comp)
		}
	}
	for _, n := range names {
		if _, ok := index[n]; !ok {
			strong(n)
		}
	}
	var sb strings.Builder
	sb.WriteString(rawText.String())
	var errs []string
	sig := func(sd *SpecDef) string {
		var ps []string
		for i, f := range sd.Formals {
			ps = append(ps, "("+f.Head+" "+sd.Params[i].S.S+")")
		}
		return "(" + strings.Join(ps, " ") + ") " + sd.Ret.S
	}
	bodyStr := func(sd *SpecDef) string {
		var b strings.Builder
		printTermLet(&b, sd.Body)
		return b.String()
	}
	for _, comp := range sccs {
		rec := len(comp) > 1
		if !rec {
			for _, d := range p.specs[comp[0]].Deps {
				if d == comp[0] {
					rec = true
				}
			}
		}
		for _, n := range comp {
			errs = append(errs, p.specs[n].errs...)
		}
		if !rec {
			sd := p.specs[comp[0]]
			fmt.Fprintf(&sb, "(define-fun %s %s %s)\n", sd.Name, sig(sd), bodyStr(sd))
			continue
		}
		if uninterp {
			// recursive spec functions as uninterpreted symbols: the query carries ground instances
			// of their defining equations instead (sound: fewer hypotheses)
			for _, n := range comp {
				sd := p.specs[n]
				var ps []string
				for _, prm := range sd.Params {
					ps = append(ps, prm.S.S)
				}
				fmt.Fprintf(&sb, "(declare-fun %s (%s) %s)\n", sd.Name, strings.Join(ps, " "), sd.Ret.S)
			}
			continue
		}
		sb.WriteString("(define-funs-rec (")
		for _, n := range comp {
			sd := p.specs[n]
			fmt.Fprintf(&sb, "(%s %s)", sd.Name, sig(sd))
		}
		sb.WriteString(") (\n")
		for _, n := range comp {
			sb.WriteString(bodyStr(p.specs[n]))
			sb.WriteString("\n")
		}
		sb.WriteString("))\n")
	}
	return sb.String(), errs
}

// printTermLet prints a term using let-bindings for shared closed subterms.
func printTermLet(sb *strings.Builder, t *Term) {
	ref := map[int]int{}
	var order []*Term
	seen := map[int]bool{}
	var rec func(t *Term)
	rec = func(t *Term) {
		ref[t.id]++
		if seen[t.id] {
			return
		}
		seen[t.id] = true
		for _, a := range t.Args {
			rec(a)
		}
		order = append(order, t)
	}
	rec(t)
	names := map[int]string{}
	n := 0
	closes := 0
	for _, x := range order {
		if x != t && ref[x.id] > 1 && len(x.Args) > 0 && !x.open && termSize(x, 3) >= 3 {
			var b strings.Builder
			printTerm(&b, x, names)
			name := fmt.Sprintf("l!%d", n)
			n++
			fmt.Fprintf(sb, "(let ((%s %s)) ", name, b.String())
			names[x.id] = name
			closes++
		}
	}
	printTerm(sb, t, names)
	sb.WriteString(strings.Repeat(")", closes))
}

// ---- package initialisers: values of package-level variables ----

func (p *Prog) evalGlobals() []string {
	init := p.pkg.Func("init")
	if init == nil {
		return nil
	}
	ex := &Exec{p: p, fn: init, fname: "init", nameCt: map[string]int{}, pure: true, entryParams: map[string]*GVal{}, freshRefs: map[*Term]bool{}}
	ex.entry = &State{cells: map[*Cell]*Term{}, heap: map[string]*Term{}, ghost: map[string]*Term{}}
	st := ex.entry.clone()
	for _, m := range p.pkg.Members {
		if g, ok := m.(*ssa.Global); ok {
			et := g.Type().(*types.Pointer).Elem()
			c := ex.newCell("global:"+g.Name(), et, p.w.SortOf(et), nil)
			globalCells[g] = c
			st.cells[c] = ex.zero(et)
		}
	}
	fr := ex.newFrame(init, TTrue, "")
	fr.top = true
	fr.run(nil, st)
	if len(fr.rets) != 1 {
		return append(ex.unsupported, "init has several return points")
	}
	ex.st = fr.rets[0].st
	for g, c := range globalCells {
		if g.Name() == "init$guard" {
			continue
		}
		t := ex.st.cells[c]
		if t == nil {
			continue
		}
		// map-typed globals hold a reference to a local map cell
		p.globals[g.Name()] = t
	}
	for g := range globalCells {
		delete(globalCells, g)
	}
	return ex.unsupported
}

// ---- call graph SCCs (for termination measures) ----

func (p *Prog) buildSCC() {
	p.scc = map[string]int{}
	names := p.fnames
	adj := map[string][]string{}
	for _, n := range names {
		f := p.funcs[n]
		for _, b := range f.Blocks {
			for _, in := range b.Instrs {
				if c, ok := in.(*ssa.Call); ok {
					if callee := c.Call.StaticCallee(); callee != nil {
						cn := funcDisplayName(callee)
						if _, ok := p.funcs[cn]; ok {
							adj[n] = append(adj[n], cn)
						}
					} else if !c.Call.IsInvoke() {
						// dynamic call: may reach any function of that signature
						sig := c.Call.Signature()
						for _, m := range names {
							g := p.funcs[m]
							if g.Signature.Recv() == nil && types.Identical(g.Signature, sig) {
								adj[n] = append(adj[n], m)
							}
						}
					} else if c.Call.Method.Name() == "Less" || c.Call.Method.Name() == "Swap" || c.Call.Method.Name() == "Len" {
						_ = c
					}
				}
			}
		}
	}
	p.callees = adj
	// sort.Stable calls back into Less/Swap/Len of the adapters
	for _, n := range names {
		if n == "jpfSortBy" {
			for _, m := range names {
				if strings.HasSuffix(m, ").Less") || strings.HasSuffix(m, ").Swap") || strings.HasSuffix(m, ").Len") {
					adj[n] = append(adj[n], m)
				}
			}
		}
	}
	index := map[string]int{}
	low := map[string]int{}
	on := map[string]bool{}
	var stack []string
	idx, comp := 0, 0
	var strong func(v string)
	strong = func(v string) {
		index[v], low[v] = idx, idx
		idx++
		stack = append(stack, v)
		on[v] = true
		for _, w := range adj[v] {
			if _, ok := index[w]; !ok {
				strong(w)
				if low[w] < low[v] {
					low[v] = low[w]
				}
			} else if on[w] && index[w] < low[v] {
				low[v] = index[w]
			}
		}
		if low[v] == index[v] {
			comp++
			size := 0
			var members []string
			for {
				w := stack[len(stack)-1]
				stack = stack[:len(stack)-1]
				on[w] = false
				members = append(members, w)
				size++
				if w == v {
					break
				}
			}
			self := false
			for _, w := range adj[v] {
				if w == v {
					self = true
				}
			}
			if size > 1 || self {
				for _, m := range members {
					p.scc[m] = comp
				}
			}
		}
	}
	for _, n := range names {
		if _, ok := index[n]; !ok {
			strong(n)
		}
	}
}

func (p *Prog) sameSCC(a, b string) bool {
	x, ok1 := p.scc[baseName(a)]
	y, ok2 := p.scc[baseName(b)]
	return ok1 && ok2 && x == y
}

// ---- verification of one function ----

func (p *Prog) verifyFunc(name string) *Exec {
	fn := p.funcs[baseName(name)]
	c := p.cs.Funcs[name]
	ex := &Exec{p: p, fn: fn, fname: name, c: c, nameCt: map[string]int{}, entryParams: map[string]*GVal{}, freshRefs: map[*Term]bool{}}
	ex.entry = &State{cells: map[*Cell]*Term{}, heap: map[string]*Term{}, ghost: map[string]*Term{}}
	fr := ex.newFrame(fn, TTrue, "")
	fr.top = true
	fr.cur = TTrue
	ex.curBlk = -1
	var args []*GVal
	for i, prm := range fn.Params {
		s := p.w.SortOf(prm.Type())
		cst := p.NamedConst(prm.Name()+"@"+ex.fname0(), s)
		g := &GVal{T: cst, Typ: prm.Type()}
		ex.addFact(ex.typeFacts(cst, prm.Type()))
		if i == 0 && fn.Signature.Recv() != nil {
			if _, isPtr := prm.Type().Underlying().(*types.Pointer); isPtr {
				ex.addFact(Not(Eq(cst, IntLit(0))))
				p.assumptions["methods are invoked on non-nil receivers (an obligation at every call site inside the packages)"] = true
			}
		}
		args = append(args, g)
		ex.entryParams[prm.Name()] = g
	}
	if c != nil {
		for _, gp := range c.GhostParams {
			gs := sortByName(p.w, p, gp[1])
			if gs == nil {
				ex.unsupp("ghost parameter %s of unknown type %s", gp[0], gp[1])
				continue
			}
			gc := p.NamedConst(gp[0]+"@ghost_"+ex.fname0(), gs)
			ex.entryParams[gp[0]] = &GVal{T: gc, Typ: typeByName(p, gp[1])}
		}
	}
	if fn.Pkg != nil && fn.Pkg == p.mainPkg {
		// observable effects of the command: ghost traces, symbolic at entry
		for _, k := range ioGhosts {
			ex.entry.ghost[k.name] = p.NamedConst(k.name+"@entry_"+ex.fname0(), k.sort)
		}
		ex.addFact(Le(IntLit(0), ex.entry.ghost["stdoutCount"]))
		ex.addFact(Le(IntLit(0), ex.entry.ghost["stderrCount"]))
	}
	ex.st = ex.entry.clone()
	if c != nil {
		env := fr.entryEnv()
		env.st = ex.st
		for _, cl := range c.Requires {
			ex.addFact(fr.evalBool(cl.Expr, env))
		}
		for _, cl := range c.Decreases {
			ex.measureEntry = append(ex.measureEntry, fr.evalTerm(cl.Expr, env))
		}
	}
	// the entry state may have gained heap components while evaluating requires
	st0 := ex.st
	for k, v := range ex.entry.heap {
		if _, ok := st0.heap[k]; !ok {
			st0.heap[k] = v
		}
	}
	fr.run(args, st0)
	// postconditions at each return point
	rn := resultNames(fn)
	sort.SliceStable(fr.rets, func(i, j int) bool { return fr.rets[i].pos < fr.rets[j].pos })
	for ri, r := range fr.rets {
		ex.st = r.st
		fr.cur = r.cond
		ex.curBlk = r.blk
		vars := map[string]*GVal{}
		for k, v := range ex.entryParams {
			vars[k] = v
		}
		for i, v := range r.vals {
			if i < len(rn) {
				vars[rn[i]] = &GVal{T: fr.term(v), Typ: v.Typ, Fresh: v.Fresh}
			}
		}
		env := &Env{fr: fr, vars: vars, st: r.st, old: ex.entry, oldVars: ex.entryParams}
		env.dbgHead = fn.Blocks[r.blk] // local variables that dominate the return may be named in ensures
		retLabel := fmt.Sprintf("ret%d", ri+1)
		if c != nil {
			for i, cl := range c.Ensures {
				if cl.Tier == "thorough" && p.tier != "thorough" {
					continue
				}
				if cl.Kind == "assumes" {
					// an explicit, listed assumption about this function's result (not proved)
					p.assumptions["assumed in "+name+": "+cl.Text] = true
					ex.addFact(Implies(fr.cur, fr.evalBool(cl.Expr, env)))
					continue
				}
				goal := fr.evalBool(cl.Expr, env)
				// a return block reached along several edges: one obligation per edge (the merged
				// values collapse under the edge condition, which keeps each query small)
				rb := fn.Blocks[r.blk]
				var fpreds []*ssa.BasicBlock
				for _, pb := range rb.Preds {
					if _, ok := fr.reach[pb]; ok && !rb.Dominates(pb) {
						fpreds = append(fpreds, pb)
					}
				}
				if len(fpreds) >= 2 && len(fpreds) <= 4 && len(cl.Props) > 0 && fr.loops[rb] == nil {
					saved := fr.cur
					for k, pb := range fpreds {
						fr.cur = fr.edgeCond(pb, rb)
						fr.oblige("post", fmt.Sprintf("%s/%s/via%d", retLabel, clauseLabel2(cl, "ensures", i), k+1), cl.Props, goal, r.pos)
					}
					fr.cur = saved
					ex.addFact(Implies(fr.cur, goal))
					continue
				}
				fr.oblige("post", retLabel+"/"+clauseLabel2(cl, "ensures", i), cl.Props, goal, r.pos)
			}
			if c.Fresh && len(r.vals) > 0 {
				f := r.vals[0].Fresh
				if f == nil {
					f = TFalse
				}
				if _, isPtr := r.vals[0].Typ.Underlying().(*types.Pointer); isPtr {
					if t := vars[rn[0]].T; t != nil && ex.freshRefs[t] {
						f = TTrue
					}
				}
				fr.oblige("post", retLabel+"/fresh(result)", []string{"C06", "C12", "C13"}, f, r.pos)
			}
		}
		// G-ERR: an error seen from an evaluation call must not be dropped
		if es := r.st.ghost["errSeen"]; es != nil && es != TFalse && len(r.vals) > 0 {
			last := r.vals[len(r.vals)-1]
			if last.Typ != nil && p.w.SortOf(last.Typ) == SErr {
				fr.oblige("err", retLabel+"/error-not-swallowed", []string{"C11"}, Implies(App("(_ is ErrNil)", SBool, fr.term(last)), Not(es)), r.pos)
			}
		}
		// frame at return: heap fields not listed in assigns are unchanged
		if c != nil && c.HasAssigns {
			keys := []string{}
			for k := range r.st.heap {
				keys = append(keys, k)
			}
			sort.Strings(keys)
			for _, k := range keys {
				h0 := ex.entry.heap[k]
				if h0 == nil || r.st.heap[k] == h0 {
					continue
				}
				listed := false
				for _, a := range c.Assigns {
					if strings.TrimSuffix(a, "[*]") == k {
						listed = true
					}
				}
				hf := r.st.heap[k]
				if !listed {
					// only fresh objects may differ
					goal := heapEqExcept(hf, h0, ex.freshRefList())
					fr.oblige("frame", retLabel+"/unchanged("+k+")", []string{"C06", "C12", "C13"}, goal, r.pos)
				}
			}
		}
	}
	ex.renumber()
	return ex
}

// renumber gives obligations with the same base name ordinals in source order.
func (ex *Exec) renumber() {
	groups := map[string][]*Obligation{}
	for _, o := range ex.obls {
		groups[o.base] = append(groups[o.base], o)
	}
	for base, g := range groups {
		if len(g) == 1 {
			g[0].Name = base
			continue
		}
		sort.SliceStable(g, func(i, j int) bool { return g[i].pos < g[j].pos })
		for i, o := range g {
			if i == 0 {
				o.Name = base
			} else {
				o.Name = fmt.Sprintf("%s#%d", base, i+1)
			}
		}
	}
}

func (ex *Exec) freshRefList() []*Term {
	var l []*Term
	for r := range ex.freshRefs {
		l = append(l, r)
	}
	sort.Slice(l, func(i, j int) bool { return l[i].id < l[j].id })
	return l
}

// heapEqExcept: hf equals h0 except possibly at the given (fresh) references.
func heapEqExcept(hf, h0 *Term, fresh []*Term) *Term {
	t := hf
	for _, r := range fresh {
		t = Store(t, r, Select(h0, r))
	}
	return Eq(t, h0)
}

// functionTable returns the value of functionCaller.functionTable built by newFunctionCaller
// (obtained by executing the constructor symbolically, like a package initialiser).
func (p *Prog) functionTable() *Term {
	if p.fnTable != nil {
		return p.fnTable
	}
	fn := p.funcs["newFunctionCaller"]
	if fn == nil {
		return nil
	}
	ex := &Exec{p: p, fn: fn, fname: "newFunctionCaller", nameCt: map[string]int{}, pure: true, entryParams: map[string]*GVal{}, freshRefs: map[*Term]bool{}}
	ex.entry = &State{cells: map[*Cell]*Term{}, heap: map[string]*Term{}, ghost: map[string]*Term{}}
	fr := ex.newFrame(fn, TTrue, "")
	fr.top = true
	fr.run(nil, ex.entry.clone())
	if len(fr.rets) != 1 || len(fr.rets[0].vals) != 1 {
		return nil
	}
	ex.st = fr.rets[0].st
	ref := fr.term(fr.rets[0].vals[0])
	h := ex.st.heap["functionCaller.functionTable"]
	if h == nil {
		return nil
	}
	p.fnTable = Select(h, ref)
	p.fnTableNotes = ex.unsupported
	return p.fnTable
}

// ---- lemmas ----
//
// A lemma is a universally quantified statement over spec functions. It is proved once as an
// obligation (variables as fresh constants) *without* using any lemma, and is then available to
// every query as a quantified fact with the given trigger.

type lemmaInfo struct {
	l     *Lemma
	obl   *Obligation
	axiom *Term
	trigHead string // the lemma is only offered to queries that mention this symbol
	needs    []string
}

func (p *Prog) buildLemmas() {
	if p.lemmasBuilt {
		return
	}
	p.lemmasBuilt = true
	for _, l := range p.cs.Lemmas {
		ex := &Exec{p: p, fname: "lemma:" + l.Name, nameCt: map[string]int{}, entryParams: map[string]*GVal{}, freshRefs: map[*Term]bool{}}
		ex.entry = &State{cells: map[*Cell]*Term{}, heap: map[string]*Term{}, ghost: map[string]*Term{}}
		ex.st = ex.entry.clone()
		fr := &Frame{ex: ex, vals: map[ssa.Value]*GVal{}, cur: TTrue, dbg: map[string][]ssa.Value{}}
		env := &Env{fr: fr, vars: map[string]*GVal{}, st: ex.st, old: ex.entry}
		var consts []*Term
		var bvars []*Term
		subst := map[*Term]*Term{}
		okSorts := true
		for _, v := range l.Vars {
			s := sortByName(p.w, p, v[1])
			if s == nil {
				okSorts = false
				continue
			}
			c := p.NamedConst(v[0]+"@lemma_"+l.Name, s)
			consts = append(consts, c)
			b := mkBoundVar(v[0]+"!l", s)
			bvars = append(bvars, b)
			subst[c] = b
			env.vars[v[0]] = &GVal{T: c, Typ: typeByName(p, v[1])}
		}
		if !okSorts {
			continue
		}
		var hyps, concl []*Term
		for _, h := range l.Hyps {
			hyps = append(hyps, fr.evalBool(h.Expr, env))
		}
		for _, c := range l.Concl {
			concl = append(concl, fr.evalBool(c.Expr, env))
		}
		goal := Implies(And(hyps...), And(concl...))
		o := &Obligation{Name: "lemma/" + l.Name, Func: "lemma:" + l.Name, Kind: "lemma", Props: l.Props, Facts: []*Term{}, NFacts: 0, Goal: goal, Where: "verif_contracts.go lemma " + l.Name, noLemmas: true}
		li := &lemmaInfo{l: l, obl: o}
		body := Subst(goal, subst)
		if l.Trigger != nil {
			trig := Subst(fr.evalTerm(l.Trigger, env), subst)
			li.axiom = mkQuantPat(bvars, body, trig)
			li.trigHead = trig.Head
		} else {
			li.axiom = Forall(bvars, body)
			// without a trigger: offered only to queries that already talk about all its spec functions
			collectSyms([]*Term{goal}, func(t *Term) {
				if _, ok := p.specs[t.Head]; ok && len(t.Args) > 0 {
					li.needs = append(li.needs, t.Head)
				}
			})
		}
		for _, u := range ex.unsupported {
			fmt.Fprintln(os.Stderr, "lemma", l.Name+":", u)
		}
		p.lemmas = append(p.lemmas, li)
	}
}

func (p *Prog) lemmaObligations() []*Obligation {
	p.buildLemmas()
	var out []*Obligation
	for _, li := range p.lemmas {
		out = append(out, li.obl)
	}
	return out
}

// lemmaAxiomsFor: the lemmas whose trigger symbol occurs in the given assertions.
func (p *Prog) lemmaAxiomsFor(asserts []*Term) []*Term {
	p.buildLemmas()
	heads := map[string]bool{}
	direct := map[string]bool{}
	collectSyms(asserts, func(t *Term) { heads[t.Head] = true; direct[t.Head] = true })
	// symbols reachable through the definitions of the spec functions mentioned
	changed := true
	for changed {
		changed = false
		for h := range heads {
			if sd, ok := p.specs[h]; ok {
				for _, d := range append(append([]string{}, sd.Deps...), sd.RawDeps...) {
					if !heads[d] {
						heads[d] = true
						changed = true
					}
				}
			}
		}
	}
	var out []*Term
	for _, li := range p.lemmas {
		if li.l.CheckOnly {
			continue
		}
		if li.trigHead != "" {
			if heads[li.trigHead] {
				out = append(out, li.axiom)
			}
			continue
		}
		all := len(li.needs) > 0
		for _, n := range li.needs {
			if !direct[n] {
				all = false
			}
		}
		if all {
			out = append(out, li.axiom)
		}
	}
	return out
}
