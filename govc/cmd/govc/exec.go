package main

// Symbolic executor over go/ssa: turns a function body plus its contract into
// named proof obligations (verification conditions).

import (
	"fmt"
	"go/constant"
	"go/token"
	"go/types"
	"sort"
	"strings"

	"golang.org/x/tools/go/ssa"
)

// ---- generator-level values ----

type PathElem struct {
	Field string
	Index *Term // array index
	Elem  *Term // slice element index (through a slice header stored in the place)
}

type Ptr struct {
	Cell   *Cell
	Ref    *Term  // heap object reference (Int)
	RefTy  string // struct type name of heap object
	Global *ssa.Global
	Base   *GVal // read-only value base (element of an immutable value)
	Path   []PathElem
}

func (p *Ptr) extend(e PathElem) *Ptr {
	q := *p
	q.Path = append(append([]PathElem{}, p.Path...), e)
	return &q
}

type Cell struct {
	fieldFresh map[string]*Term // freshness of containers stored into struct fields of this cell
	fieldReg   map[string]*GVal // local slices stored into struct fields of this cell (the field aliases the local storage)
	id     int
	name   string
	sort   *Sort
	typ    types.Type
	frozen bool
	site   ssa.Instruction
	pub    *Term  // published as heap object reference
	pubTy  string
}

type GVal struct {
	T      *Term
	Ptr    *Ptr
	// slice view
	Reg    *Cell // backing region (array cell) or nil
	Off    *Term
	Len    *Term
	Origin *Ptr  // place a slice/map value was loaded from
	Fresh  *Term // Bool: container allocated after function entry
	Tuple  []*GVal
	Fn     *ssa.Function
	Iter   *Cell // range iterator position cell
	IterOf *GVal
	Typ    types.Type
	Wrapped *GVal // value wrapped by MakeInterface (for stdlib functions that write through it)
	NilT    *Term // nil-ness of a slice view (nil pointer means "not nil")
}

func (v *GVal) viewNil() *Term {
	if v.NilT != nil {
		return v.NilT
	}
	return TFalse
}

type State struct {
	cells  map[*Cell]*Term
	heap   map[string]*Term
	ghost  map[string]*Term
	frozen map[*Cell]bool // cells whose content escaped as an immutable value on this path
}

func (s *State) freeze(c *Cell) {
	if s.frozen == nil {
		s.frozen = map[*Cell]bool{}
	}
	s.frozen[c] = true
}

func (s *State) clone() *State {
	n := &State{cells: map[*Cell]*Term{}, heap: map[string]*Term{}, ghost: map[string]*Term{}, frozen: map[*Cell]bool{}}
	for k, v := range s.frozen {
		n.frozen[k] = v
	}
	for k, v := range s.cells {
		n.cells[k] = v
	}
	for k, v := range s.heap {
		n.heap[k] = v
	}
	for k, v := range s.ghost {
		n.ghost[k] = v
	}
	return n
}

type Obligation struct {
	Name   string
	base   string
	pos    token.Pos
	Func   string
	Kind   string // safe, post, requires, inv-established, inv-preserved, variant, frame, err, lemma, ...
	Props  []string
	NFacts int
	Facts  []*Term // shared slice prefix
	Goal   *Term
	Where  string
	Tier   string
	Expect string // "" normally; "refuted" for cover checks
	// results
	Verdict string
	Solver  string
	Secs    float64
	Model   string
	Output  string
	ex      *Exec
	noLemmas bool
	blk     int
	factBlk []int
	hints   []hintT // hypotheses whose spec applications deserve one unfolding (assumed loop invariants)
}

type Exec struct {
	p      *Prog
	fn     *ssa.Function
	fname  string
	c      *Contract
	facts  []*Term
	factBlk []int // block (of the function under verification) in which each fact was emitted; -1 = entry/global
	curBlk int
	obls   []*Obligation
	st     *State
	entry  *State
	cellN  int
	nameCt map[string]int
	pure   bool // spec-function translation mode: no obligations
	unsupported []string
	depth  int
	params map[string]*GVal
	entryParams map[string]*GVal
	measureEntry []*Term
	callStack []string
	frameWrites []string
	noOverflowAssume bool
	freshRefs map[*Term]bool
	firstIter []*Term
	sortFlag  *Term
	flagCells []*Cell // values registered with package flag (assigned by flag.Parse)
	flagNames map[*Cell]*Term
	hints     []hintT
}

type hintT struct {
	t   *Term
	blk int // loop header block the invariant belongs to
}

type Frame struct {
	ex     *Exec
	fn     *ssa.Function
	vals   map[ssa.Value]*GVal
	reach  map[*ssa.BasicBlock]*Term
	out    map[*ssa.BasicBlock]*State
	edge   map[[2]int]*Term
	guard  *Term // caller's guard
	rets   []retPoint
	prefix string
	loops  map[*ssa.BasicBlock]*loopInfo
	curBlock *ssa.BasicBlock
	cur    *Term // current guard (reach of current block)
	dbg    map[string][]ssa.Value
	dbgAll map[string][]ssa.Value
	dbgConstAt map[ssa.Value][]*ssa.BasicBlock // blocks of the declarations whose initialiser is this constant
	top    bool
	noFreeze bool
}

type retPoint struct {
	blk  int
	cond *Term
	vals []*GVal
	st   *State
	pos  token.Pos
}

type loopInfo struct {
	head    *ssa.BasicBlock
	ordinal int
	body    map[*ssa.BasicBlock]bool
	backs   []*ssa.BasicBlock
	spec    *LoopSpec
	phis    []*ssa.Phi
	headSt  *State
	variantAtHead []*Term
	iterCells []*Cell
	optimisticFresh map[*ssa.Phi]bool
	kTerm   *Term // \k: completed iterations (range loops)
	wcells  map[*Cell]bool
	wheap   map[string]bool
	rangeBound *Term
	rangePhi   *ssa.Phi
	tracksErr  bool
	entrySt    *State            // state when the loop was entered (for \entry(...))
	entryVars  map[string]*GVal
}

func (ex *Exec) unsupp(format string, a ...interface{}) {
	msg := fmt.Sprintf(format, a...)
	for _, u := range ex.unsupported {
		if u == msg {
			return
		}
	}
	ex.unsupported = append(ex.unsupported, msg)
}

func (ex *Exec) addFact(t *Term) {
	if t == TTrue || ex.pure {
		return
	}
	// split conjunctions (also under nested implications) so that slicing works per conjunct
	if t.Head == "and" && t.Bind == nil {
		for _, a := range t.Args {
			ex.addFact(a)
		}
		return
	}
	if t.Head == "=>" && len(t.Args) == 2 {
		guard, body := t.Args[0], t.Args[1]
		for body.Head == "=>" && len(body.Args) == 2 {
			guard = And(guard, body.Args[0])
			body = body.Args[1]
		}
		if body.Head == "and" && body.Bind == nil {
			for _, a := range body.Args {
				ex.addFact(Implies(guard, a))
			}
			return
		}
		if body != t.Args[1] {
			t = Implies(guard, body)
		}
	}
	ex.facts = append(ex.facts, t)
	ex.factBlk = append(ex.factBlk, ex.curBlk)
}

func (ex *Exec) oblName(base string) string {
	ex.nameCt[base]++
	if ex.nameCt[base] == 1 {
		return base
	}
	return fmt.Sprintf("%s#%d", base, ex.nameCt[base])
}

func (fr *Frame) oblige(kind, label string, props []string, goal *Term, pos token.Pos) {
	ex := fr.ex
	if ex.pure {
		return
	}
	g := Implies(fr.cur, goal)
	base := ex.fname + "/" + fr.prefix + kind + "/" + label
	name := ex.oblName(base)
	if ex.c != nil && (kind == "safe" || kind == "term" || strings.HasPrefix(kind, "loop") && strings.HasPrefix(label, "variant") || len(props) == 0) {
		props = unionProps(props, ex.c.Props)
	}
	if ex.c != nil && variantOf(ex.fname) != "" {
		// a contract variant serves only the properties it names
		props = ex.c.Props
	}
	o := &Obligation{hints: ex.hints, blk: ex.curBlk, factBlk: ex.factBlk, ex: ex, base: base, pos: pos, Name: name, Func: ex.fname, Kind: kind, Props: props, NFacts: len(ex.facts), Facts: ex.facts, Goal: g, Where: ex.p.srcLine(pos)}
	if g == TTrue {
		// holds by construction of the terms (e.g. code and spec build the same term)
		o.Verdict, o.Solver, o.Facts = "unsat", "syntactic", nil
	}
	ex.obls = append(ex.obls, o)
	ex.addFact(g)
}

// ---- cells and state ----

func (ex *Exec) newCell(name string, t types.Type, s *Sort, site ssa.Instruction) *Cell {
	ex.cellN++
	return &Cell{id: ex.cellN, name: name, sort: s, typ: t, site: site}
}

func (ex *Exec) heapGet(st *State, key string, fs *Sort) *Term {
	if h, ok := st.heap[key]; ok {
		return h
	}
	// heap component first touched: it has the same (unknown) value at entry
	h := ex.p.NamedConst("H_"+strings.ReplaceAll(key, ".", "_")+"@"+ex.fname0(), SArray(SInt, fs))
	if ex.entry != nil {
		if _, ok := ex.entry.heap[key]; !ok {
			ex.entry.heap[key] = h
		}
	}
	st.heap[key] = h
	return h
}

func (ex *Exec) fname0() string {
	return strings.NewReplacer("(", "", ")", "", "*", "", ".", "_", "#", "_").Replace(ex.fname)
}

// ---- zero values ----

func (ex *Exec) zero(t types.Type) *Term {
	w := ex.p.w
	s := w.SortOf(t)
	switch u := t.Underlying().(type) {
	case *types.Basic:
		switch s {
		case SInt:
			return IntLit(0)
		case SBool:
			return TFalse
		case SStr:
			return w.StrLit("")
		case SF64:
			return mk("(_ +zero 11 53)", SF64)
		}
		if s.IsBV() {
			return BVLit(0, s.BVWidth())
		}
	case *types.Interface:
		if s == SErr {
			return mk("ErrNil", SErr)
		}
		return VNil
	case *types.Slice:
		es := w.SortOf(u.Elem())
		return w.MkSlice(es, ConstArray(SArray(SInt, es), ex.zeroElem(u.Elem())), IntLit(0), TTrue)
	case *types.Array:
		return ConstArray(s, ex.zero(u.Elem()))
	case *types.Map:
		mi := w.MapInfoOfSort(s)
		return w.MkMap(mi, ConstArray(SArray(mi.K, SBool), TFalse), ConstArray(SArray(mi.K, mi.V), ex.zero(u.Elem())), IntLit(0), TTrue)
	case *types.Pointer:
		if s.S == "PInt" {
			return mk("pnil", s)
		}
		return IntLit(0)
	case *types.Signature:
		return IntLit(0)
	case *types.Struct:
		if s == SStr {
			return w.StrLit("")
		}
		if s.S == "RV" {
			return App("mkRV", s, VNil, TFalse, TFalse)
		}
		if s == SNode {
			return MkNode(IntLit(0), VNil, ConstArray(SArray(SInt, SNode), mk("NodeBottom", SNode)), IntLit(0))
		}
		si := w.StructInfoOfSort(s)
		if si == nil {
			break
		}
		args := make([]*Term, len(si.Fields))
		for i, f := range si.Fields {
			args[i] = ex.zero(f.T)
		}
		return App(si.Ctor, s, args...)
	}
	ex.unsupp("zero value of %s", t)
	return ex.p.FreshConst("zero", s)
}

// zeroElem: the default element of arrays. For AST nodes it is NodeBottom (the representation of
// "no node"; its fields are unconstrained, which over-approximates reading a zero ASTNode) so that
// all empty child lists are the same term.
func (ex *Exec) zeroElem(t types.Type) *Term {
	if ex.p.w.SortOf(t) == SNode {
		return mk("NodeBottom", SNode)
	}
	return ex.zero(t)
}

// typing facts about a freshly introduced (havocked) value of Go type t
func (ex *Exec) typeFacts(v *Term, t types.Type) *Term {
	w := ex.p.w
	switch u := t.Underlying().(type) {
	case *types.Basic:
		if u.Kind() == types.Int || u.Kind() == types.Int64 {
			if ex.p.w.SortOf(t) == SInt {
				return And(Le(minInt, v), Le(v, maxInt))
			}
		}
		if u.Kind() == types.String {
			return And(Le(IntLit(0), App("gs.len", SInt, v)), Le(App("gs.len", SInt, v), maxLen))
		}
	case *types.Slice:
		l := w.SlLen(v)
		return And(Le(IntLit(0), l), Le(l, maxLen), Implies(w.SlNil(v), Eq(l, IntLit(0))))
	case *types.Map:
		l := w.MpSize(v)
		return And(Le(IntLit(0), l), Le(l, maxLen), Implies(w.MpNil(v), Eq(l, IntLit(0))))
	case *types.Struct:
		if v.S == SNode {
			return And(Le(IntLit(0), NNKids(v)), Le(NNKids(v), maxLen), App("(_ is mkNode)", SBool, v))
		}
		si := w.StructInfoOfSort(v.S)
		if si == nil {
			return TTrue
		}
		var fs []*Term
		for _, f := range si.Fields {
			fs = append(fs, ex.typeFacts(w.Field(v, f.Name), f.T))
		}
		return And(fs...)
	}
	return TTrue
}

var (
	minInt = IntLitStr("-9223372036854775808")
	maxInt = IntLitStr("9223372036854775807")
	maxLen = IntLitStr("281474976710656") // 2^48: address-space bound on object sizes
)

// ---- materialising GVals as SMT terms ----

// term returns the SMT term of a value (materialising slice views, freezing regions).
func (fr *Frame) term(v *GVal) *Term {
	ex := fr.ex
	w := ex.p.w
	if v.Fn != nil {
		return w.FuncID(funcDisplayName(v.Fn))
	}
	if v.Ptr != nil && v.T == nil {
		// pointer used as a value
		p := v.Ptr
		if p.Ref != nil && len(p.Path) == 0 {
			return p.Ref
		}
		if p.Cell != nil && len(p.Path) == 0 {
			if p.Cell.pub != nil {
				return p.Cell.pub
			}
			if n, ok := p.Cell.typ.(*types.Named); ok {
				if _, ok := n.Underlying().(*types.Struct); ok {
					return fr.publish(p.Cell)
				}
			}
			// pointer to a local cell escapes as a value
			if pe, ok := p.Cell.typ.Underlying().(*types.Basic); ok && pe.Kind() == types.Int {
				ex.st.freeze(p.Cell)
				return App("pref", w.pintSort(), ex.st.cells[p.Cell])
			}
		}
		ex.unsupp("pointer used as value: %s", fr.describePtr(p))
		return ex.p.FreshConst("ptr", SInt)
	}
	if v.Len != nil {
		// slice view
		var base *Term
		es := w.SliceInfoOfSort(w.SortOf(v.Typ)).Elem
		if v.Reg != nil {
			if !fr.noFreeze {
				ex.st.freeze(v.Reg)
			}
			base = ex.st.cells[v.Reg]
		} else if v.T != nil {
			base = w.SlArr(v.T)
		} else if v.Origin != nil {
			base = w.SlArr(fr.load(v.Origin))
		} else {
			ex.unsupp("slice view without a base value")
			base = ex.p.FreshConst("viewbase", SArray(SInt, es))
		}
		if isZeroLit(v.Off) {
			return w.MkSlice(es, base, v.Len, v.viewNil())
		}
		// shifted view: uninterpreted shift with element facts added lazily
		sname := "shift_" + sortIdent(es)
		ex.p.DeclareFun(sname, []*Sort{SArray(SInt, es), SInt}, SArray(SInt, es))
		ex.p.assumptions["array shift: shift(a,k)[j] == a[k+j] (instantiated at reads)"] = true
		return w.MkSlice(es, App(sname, SArray(SInt, es), base, v.Off), v.Len, TFalse)
	}
	if v.T == nil && v.Origin != nil {
		// a map (or slice) living in a local cell, used as a value: snapshot
		if v.Origin.Cell != nil && !fr.noFreeze {
			ex.st.freeze(v.Origin.Cell)
		}
		return fr.load(v.Origin)
	}
	if v.T == nil {
		ex.unsupp("value without term")
		return ex.p.FreshConst("unk", SInt)
	}
	return v.T
}

func isZeroLit(t *Term) bool { return t != nil && t.Head == "0" && len(t.Args) == 0 }

func (fr *Frame) describePtr(p *Ptr) string {
	s := ""
	switch {
	case p.Cell != nil:
		s = "cell:" + p.Cell.name
	case p.Ref != nil:
		s = "heap:" + p.RefTy
	case p.Global != nil:
		s = "global:" + p.Global.Name()
	case p.Base != nil:
		s = "value"
	}
	for _, e := range p.Path {
		if e.Field != "" {
			s += "." + e.Field
		} else {
			s += "[]"
		}
	}
	return s
}

// ---- reading and writing through pointers ----

func (fr *Frame) rootRead(p *Ptr, st *State) (*Term, []PathElem) {
	ex := fr.ex
	if p.Cell != nil && p.Cell.pub != nil {
		q := &Ptr{Ref: p.Cell.pub, RefTy: p.Cell.pubTy, Path: p.Path}
		return fr.rootRead(q, st)
	}
	switch {
	case p.Cell != nil:
		t, ok := st.cells[p.Cell]
		if !ok {
			ex.unsupp("read of dead cell %s", p.Cell.name)
			t = ex.p.FreshConst("dead", p.Cell.sort)
		}
		return t, p.Path
	case p.Ref != nil:
		if len(p.Path) == 0 || p.Path[0].Field == "" {
			ex.unsupp("whole-object read of heap %s", p.RefTy)
			return ex.p.FreshConst("obj", SInt), nil
		}
		f := p.Path[0].Field
		fs := ex.heapFieldSort(p.RefTy, f)
		h := ex.heapGet(st, p.RefTy+"."+f, fs)
		return Select(h, p.Ref), p.Path[1:]
	case p.Global != nil:
		if g, ok := ex.p.globals[p.Global.Name()]; ok {
			return g, p.Path
		}
		if c := ex.globalCell(p.Global); c != nil {
			return st.cells[c], p.Path
		}
		if p.Global.Pkg != nil && p.Global.Pkg.Pkg.Path() == "os" {
			if id, ok := osFiles[p.Global.Name()]; ok {
				return IntLit(id), p.Path // the standard streams are three distinct, fixed objects
			}
		}
		ex.unsupp("read of unknown global %s", p.Global.Name())
		return ex.p.FreshConst("glob", ex.p.w.SortOf(p.Global.Type().(*types.Pointer).Elem())), p.Path
	case p.Base != nil:
		return fr.term(p.Base), p.Path
	}
	panic("bad ptr")
}

var globalCells = map[*ssa.Global]*Cell{}

func (ex *Exec) globalCell(g *ssa.Global) *Cell {
	return globalCells[g]
}

func (ex *Exec) heapFieldSort(ty, field string) *Sort {
	w := ex.p.w
	for _, si := range w.structs {
		if si.Name == "S_"+ty {
			for _, f := range si.Fields {
				if f.Name == field {
					return f.S
				}
			}
		}
	}
	// ensure struct is known
	if obj := ex.p.pkg.Pkg.Scope().Lookup(ty); obj != nil {
		w.SortOf(obj.Type())
		for _, si := range w.structs {
			if si.Name == "S_"+ty {
				for _, f := range si.Fields {
					if f.Name == field {
						return f.S
					}
				}
			}
		}
	}
	ex.unsupp("unknown heap field %s.%s", ty, field)
	return SInt
}

func (fr *Frame) readPath(base *Term, path []PathElem) *Term {
	w := fr.ex.p.w
	for _, e := range path {
		switch {
		case e.Field != "":
			if base.S == SNode {
				base = nodeField(w, base, e.Field)
			} else {
				base = w.Field(base, e.Field)
			}
		case e.Index != nil:
			base = Select(base, e.Index)
		case e.Elem != nil:
			base = Select(w.SlArr(base), e.Elem)
		}
	}
	return base
}

func nodeField(w *World, n *Term, f string) *Term {
	switch f {
	case "nodeType":
		return NType(n)
	case "value":
		return NVal(n)
	case "children":
		return w.MkSlice(SNode, NKids(n), NNKids(n), TFalse)
	}
	panic("node field " + f)
}

func nodeWithField(w *World, n *Term, f string, v *Term) *Term {
	switch f {
	case "nodeType":
		return MkNode(v, NVal(n), NKids(n), NNKids(n))
	case "value":
		return MkNode(NType(n), v, NKids(n), NNKids(n))
	case "children":
		return MkNode(NType(n), NVal(n), w.SlArr(v), w.SlLen(v))
	}
	panic("node field " + f)
}

func (fr *Frame) writePath(base *Term, path []PathElem, v *Term) *Term {
	w := fr.ex.p.w
	if len(path) == 0 {
		return v
	}
	e := path[0]
	switch {
	case e.Field != "":
		if base.S == SNode {
			return nodeWithField(w, base, e.Field, fr.writePath(nodeField(w, base, e.Field), path[1:], v))
		}
		return w.WithField(base, e.Field, fr.writePath(w.Field(base, e.Field), path[1:], v))
	case e.Index != nil:
		return Store(base, e.Index, fr.writePath(Select(base, e.Index), path[1:], v))
	case e.Elem != nil:
		arr := w.SlArr(base)
		si := w.SliceInfoOfSort(base.S)
		return w.MkSlice(si.Elem, Store(arr, e.Elem, fr.writePath(Select(arr, e.Elem), path[1:], v)), w.SlLen(base), w.SlNil(base))
	}
	panic("bad path")
}

func (fr *Frame) load(p *Ptr) *Term {
	base, path := fr.rootRead(p, fr.ex.st)
	return fr.readPath(base, path)
}

func (fr *Frame) store(p *Ptr, v *Term, pos token.Pos) {
	ex := fr.ex
	st := ex.st
	if p.Cell != nil && p.Cell.pub != nil {
		fr.store(&Ptr{Ref: p.Cell.pub, RefTy: p.Cell.pubTy, Path: p.Path}, v, pos)
		return
	}
	switch {
	case p.Cell != nil:
		if st.frozen[p.Cell] {
			ex.unsupp("write to cell %s after it escaped as a value", p.Cell.name)
		}
		st.cells[p.Cell] = fr.writePath(st.cells[p.Cell], p.Path, v)
	case p.Ref != nil:
		if len(p.Path) == 0 || p.Path[0].Field == "" {
			ex.unsupp("whole-object write of heap %s", p.RefTy)
			return
		}
		f := p.Path[0].Field
		key := p.RefTy + "." + f
		fs := ex.heapFieldSort(p.RefTy, f)
		h := ex.heapGet(st, key, fs)
		old := Select(h, p.Ref)
		st.heap[key] = Store(h, p.Ref, fr.writePath(old, p.Path[1:], v))
		fr.frameWrite(key, p, pos)
	case p.Global != nil:
		if c := ex.globalCell(p.Global); c != nil && ex.fn.Name() == "init" {
			st.cells[c] = fr.writePath(st.cells[c], p.Path, v)
			return
		}
		ex.p.globalWrites = append(ex.p.globalWrites, ex.fname+": "+p.Global.Name())
		fr.oblige("frame", "global-write("+p.Global.Name()+")", []string{"C12", "C13"}, TFalse, pos)
	case p.Base != nil:
		// write through an immutable value (e.g. element of a parameter slice)
		fr.oblige("frame", "write-into-preexisting("+fr.describePtr(p)+")", []string{"C06", "C12", "C13"}, TFalse, pos)
		ex.unsupp("write through immutable value %s", fr.describePtr(p))
	}
}

// frameWrite checks a heap-field write against the assigns clause.
func (fr *Frame) frameWrite(key string, p *Ptr, pos token.Pos) {
	ex := fr.ex
	if ex.pure || ex.c == nil || !ex.c.HasAssigns {
		return
	}
	if p.Ref != nil && ex.freshRefs[p.Ref] {
		return
	}
	// element writes through a stored slice header (e.g. a.items[i]) touch memory shared with others
	elem := false
	for _, e := range p.Path[1:] {
		if e.Elem != nil {
			elem = true
		}
	}
	want := key
	if elem {
		want = key + "[*]"
	}
	for _, a := range ex.c.Assigns {
		if a == want {
			return
		}
	}
	fr.oblige("frame", "assigns("+want+")", []string{"C06", "C12", "C13"}, TFalse, pos)
}

// ---- operand evaluation ----

func (fr *Frame) val(v ssa.Value) *GVal {
	ex := fr.ex
	w := ex.p.w
	if g, ok := fr.vals[v]; ok {
		return g
	}
	switch c := v.(type) {
	case *ssa.Const:
		return &GVal{T: fr.constTerm(c), Typ: c.Type(), Fresh: constFresh(c)}
	case *ssa.Global:
		return &GVal{Ptr: &Ptr{Global: c}, Typ: c.Type()}
	case *ssa.Function:
		return &GVal{Fn: c, Typ: c.Type()}
	case *ssa.Builtin:
		return &GVal{Typ: c.Type()}
	case *ssa.Parameter, *ssa.FreeVar:
		ex.unsupp("unbound parameter %s", v.Name())
	}
	ex.unsupp("use of undefined value %s (%T) in %s", v.Name(), v, fr.fn.Name())
	g := &GVal{T: ex.p.FreshConst("undef_"+v.Name(), w.SortOf(v.Type())), Typ: v.Type()}
	fr.vals[v] = g
	return g
}

func constFresh(c *ssa.Const) *Term {
	if c.Value == nil {
		return TTrue // nil slice/map: nothing to alias
	}
	return nil
}

func (fr *Frame) constTerm(c *ssa.Const) *Term {
	ex := fr.ex
	w := ex.p.w
	t := c.Type()
	s := w.SortOf(t)
	if c.Value == nil {
		return ex.zero(t)
	}
	switch c.Value.Kind() {
	case constant.Bool:
		return BoolLit(constant.BoolVal(c.Value))
	case constant.String:
		return w.StrLit(constant.StringVal(c.Value))
	case constant.Int:
		if s == SInt {
			return IntLitStr(c.Value.ExactString())
		}
		if s.IsBV() {
			if i, ok := constant.Int64Val(c.Value); ok {
				return BVLit(uint64(i), s.BVWidth())
			}
			u, _ := constant.Uint64Val(c.Value)
			return BVLit(u, s.BVWidth())
		}
		if s == SF64 {
			return fpLit(c.Value)
		}
	case constant.Float:
		if s == SF64 {
			return fpLit(c.Value)
		}
	}
	ex.unsupp("constant %s of type %s", c.Value, t)
	return ex.p.FreshConst("const", s)
}

func fpLit(v constant.Value) *Term {
	f, _ := constant.Float64Val(v)
	if f == 0 {
		return mk("(_ +zero 11 53)", SF64)
	}
	return mk(fmt.Sprintf("((_ to_fp 11 53) RNE %s)", realLit(f)), SF64)
}

func realLit(f float64) string {
	if f < 0 {
		return fmt.Sprintf("(- %s)", realLit(-f))
	}
	s := fmt.Sprintf("%.17g", f)
	if !strings.ContainsAny(s, ".e") {
		s += ".0"
	}
	if strings.Contains(s, "e") {
		// fall back to rational
		return fmt.Sprintf("%f", f)
	}
	return s
}

// ---- frame construction ----

func (ex *Exec) newFrame(fn *ssa.Function, guard *Term, prefix string) *Frame {
	fr := &Frame{ex: ex, fn: fn, vals: map[ssa.Value]*GVal{}, reach: map[*ssa.BasicBlock]*Term{}, out: map[*ssa.BasicBlock]*State{},
		edge: map[[2]int]*Term{}, guard: guard, prefix: prefix, loops: map[*ssa.BasicBlock]*loopInfo{}, dbg: map[string][]ssa.Value{}}
	return fr
}

// findLoops identifies natural loops (back edges to dominating headers).
func (fr *Frame) findLoops() {
	fn := fr.fn
	for _, b := range fn.Blocks {
		for _, s := range b.Succs {
			if s.Dominates(b) {
				li := fr.loops[s]
				if li == nil {
					li = &loopInfo{head: s, body: map[*ssa.BasicBlock]bool{s: true}}
					fr.loops[s] = li
				}
				li.backs = append(li.backs, b)
				// natural loop body
				stack := []*ssa.BasicBlock{b}
				for len(stack) > 0 {
					x := stack[len(stack)-1]
					stack = stack[:len(stack)-1]
					if li.body[x] {
						continue
					}
					li.body[x] = true
					stack = append(stack, x.Preds...)
				}
			}
		}
	}
	var heads []*ssa.BasicBlock
	for h := range fr.loops {
		heads = append(heads, h)
	}
	// order loops by source position of the loop (header's first positioned instruction / comment)
	sort.Slice(heads, func(i, j int) bool {
		pi, pj := fr.loopPos(heads[i]), fr.loopPos(heads[j])
		if pi != pj {
			return pi < pj
		}
		return heads[i].Index < heads[j].Index
	})
	for i, h := range heads {
		li := fr.loops[h]
		li.ordinal = i + 1
		for _, in := range h.Instrs {
			if phi, ok := in.(*ssa.Phi); ok {
				li.phis = append(li.phis, phi)
			}
		}
	}
	if fr.top {
		fr.anchorLoops(heads)
	}
}

// anchorLoops: the contract numbers the loops of a function by source order. When the loops were
// reordered in the code (e.g. the cases of a switch were moved) the n-th loop is no longer the one the
// n-th loop specification talks about; a specification "fits" a loop when every program variable it
// names is in scope there. If some specification does not fit the loop with its number but a
// one-to-one assignment of all specifications to fitting loops exists, the loops are renumbered
// accordingly.
func (fr *Frame) anchorLoops(heads []*ssa.BasicBlock) {
	c := fr.ex.c
	if c == nil || len(c.Loops) == 0 || len(heads) < 2 {
		return
	}
	params := map[string]bool{}
	for _, prm := range fr.fn.Params {
		params[prm.Name()] = true
	}
	for _, gp := range c.GhostParams {
		params[gp[0]] = true
	}
	scope := fr.fn.Pkg.Pkg.Scope()
	// names available at each loop head
	avail := make([]map[string]bool, len(heads))
	for i, h := range heads {
		m := map[string]bool{}
		for _, phi := range fr.loops[h].phis {
			if phi.Comment != "" {
				m[phi.Comment] = true
			}
		}
		for _, b := range fr.fn.Blocks {
			for _, in := range b.Instrs {
				d, ok := in.(*ssa.DebugRef)
				if !ok {
					continue
				}
				v, ok := d.Object().(*types.Var)
				if !ok || v == nil || v.IsField() {
					continue
				}
				if x, ok := d.X.(ssa.Instruction); ok && x.Block() != nil && x.Block().Dominates(h) {
					m[v.Name()] = true
				} else if _, isParam := d.X.(*ssa.Parameter); isParam {
					m[v.Name()] = true
				}
			}
		}
		avail[i] = m
	}
	// program variables each specification names
	var ords []int
	for o := range c.Loops {
		ords = append(ords, o)
	}
	sort.Ints(ords)
	need := map[int][]string{}
	for _, o := range ords {
		seen := map[string]bool{}
		var walk func(e *CExpr, bound map[string]bool)
		walk = func(e *CExpr, bound map[string]bool) {
			if e == nil {
				return
			}
			if e.Op == "id" {
				n := e.Name
				if bound[n] || params[n] || seen[n] || strings.HasPrefix(n, "\\") || n == "MaxInt" || n == "MinInt" || n == "NaN" {
					return
				}
				if scope.Lookup(n) != nil {
					return
				}
				if _, isMacro := fr.ex.p.cs.Macros[n]; isMacro {
					return
				}
				seen[n] = true
				need[o] = append(need[o], n)
				return
			}
			b2 := bound
			if (e.Op == "forall" || e.Op == "exists") && e.Var != "" {
				b2 = map[string]bool{}
				for k := range bound {
					b2[k] = true
				}
				b2[e.Var] = true
			}
			for _, a := range e.Args {
				walk(a, b2)
			}
		}
		ls := c.Loops[o]
		for _, cl := range ls.Invariants {
			walk(cl.Expr, map[string]bool{})
		}
		for _, cl := range ls.Decreases {
			walk(cl.Expr, map[string]bool{})
		}
	}
	// what kind of variable each name was when the contract was written (bindings.json): a loop-carried
	// variable must again be loop-carried, with the same type
	phiTypes := make([]map[string]string, len(heads))
	for i, h := range heads {
		m := map[string]string{}
		for _, phi := range fr.loops[h].phis {
			if phi.Comment != "" {
				m[phi.Comment] = types.TypeString(phi.Type(), nil)
			}
		}
		phiTypes[i] = m
	}
	fits := func(o, li int) bool {
		for _, n := range need[o] {
			if !avail[li][n] {
				return false
			}
			if info, ok := fr.ex.p.bindings[bindKey(fr.ex.fname, fmt.Sprintf("loop%d", o), n)]; ok {
				t, isPhi := phiTypes[li][n]
				if info.Kind == "phi" && (!isPhi || t != info.Type) {
					return false
				}
				if info.Kind == "local" && isPhi {
					return false
				}
			}
		}
		return true
	}
	allOwn := true
	for _, o := range ords {
		if o < 1 || o > len(heads) || !fits(o, o-1) {
			allOwn = false
		}
	}
	if allOwn {
		return
	}
	// one-to-one assignment (augmenting paths), each specification trying the loop with its own number first
	matchOf := make([]int, len(heads)) // loop index -> spec ordinal (0 = none)
	var try func(o int, seen []bool) bool
	try = func(o int, seen []bool) bool {
		cands := []int{}
		if o >= 1 && o <= len(heads) {
			cands = append(cands, o-1)
		}
		for i := range heads {
			if i != o-1 {
				cands = append(cands, i)
			}
		}
		for _, i := range cands {
			if seen[i] || !fits(o, i) {
				continue
			}
			seen[i] = true
			if matchOf[i] == 0 || try(matchOf[i], seen) {
				matchOf[i] = o
				return true
			}
		}
		return false
	}
	for _, o := range ords {
		if !try(o, make([]bool, len(heads))) {
			return // no complete assignment: keep the source order (renamed variables are handled by their roles)
		}
	}
	// renumber: matched loops take the number of their specification, the others the numbers left over
	used := map[int]bool{}
	for _, o := range matchOf {
		if o != 0 {
			used[o] = true
		}
	}
	next := 1
	moved := false
	for i, h := range heads {
		li := fr.loops[h]
		if matchOf[i] != 0 {
			if li.ordinal != matchOf[i] {
				moved = true
			}
			li.ordinal = matchOf[i]
			continue
		}
		for used[next] {
			next++
		}
		li.ordinal = next
		used[next] = true
	}
	if moved {
		fr.ex.p.assumptions["loops of "+baseName(fr.ex.fname)+" were matched to their specifications by the variables in scope, not by source order (the loops were reordered in the code)"] = true
	}
}

func (fr *Frame) loopPos(h *ssa.BasicBlock) token.Pos {
	best := token.Pos(1 << 30)
	li := fr.loops[h]
	for b := range li.body {
		for _, in := range b.Instrs {
			switch in.(type) {
			case *ssa.Phi, *ssa.DebugRef:
				continue // positions of variable declarations, possibly outside the loop
			}
			if p := in.Pos(); p.IsValid() && p < best {
				best = p
			}
		}
	}
	return best
}

// topological order of blocks ignoring back edges
func (fr *Frame) topo() []*ssa.BasicBlock {
	fn := fr.fn
	visited := map[*ssa.BasicBlock]bool{}
	var order []*ssa.BasicBlock
	var dfs func(b *ssa.BasicBlock)
	dfs = func(b *ssa.BasicBlock) {
		visited[b] = true
		for _, s := range b.Succs {
			if s.Dominates(b) { // back edge
				continue
			}
			if !visited[s] {
				dfs(s)
			}
		}
		order = append(order, b)
	}
	dfs(fn.Blocks[0])
	for i, j := 0, len(order)-1; i < j; i, j = i+1, j-1 {
		order[i], order[j] = order[j], order[i]
	}
	return order
}

func (fr *Frame) edgeCond(from, to *ssa.BasicBlock) *Term {
	if c, ok := fr.edge[[2]int{from.Index, to.Index}]; ok {
		return c
	}
	return fr.reach[from]
}

// mergeStates merges predecessor out-states under their edge conditions.
func (fr *Frame) mergeStates(preds []*ssa.BasicBlock, b *ssa.BasicBlock) *State {
	if len(preds) == 1 {
		return fr.out[preds[0]].clone()
	}
	st := &State{cells: map[*Cell]*Term{}, heap: map[string]*Term{}, ghost: map[string]*Term{}, frozen: map[*Cell]bool{}}
	for _, p := range preds {
		for c, f := range fr.out[p].frozen {
			if f {
				st.frozen[c] = true
			}
		}
	}
	// cells: only those live in all preds
	first := fr.out[preds[0]]
	for c := range first.cells {
		all := true
		for _, p := range preds[1:] {
			if _, ok := fr.out[p].cells[c]; !ok {
				all = false
			}
		}
		if !all {
			continue
		}
		var t *Term
		for i := len(preds) - 1; i >= 0; i-- {
			v := fr.out[preds[i]].cells[c]
			if t == nil {
				t = v
			} else {
				t = Ite(fr.edgeCond(preds[i], b), v, t)
			}
		}
		st.cells[c] = t
	}
	keys := map[string]bool{}
	for _, p := range preds {
		for k := range fr.out[p].heap {
			keys[k] = true
		}
	}
	for k := range keys {
		var t *Term
		for i := len(preds) - 1; i >= 0; i-- {
			v, ok := fr.out[preds[i]].heap[k]
			if !ok {
				v = fr.ex.entry.heap[k]
				if v == nil {
					continue
				}
			}
			if t == nil {
				t = v
			} else {
				t = Ite(fr.edgeCond(preds[i], b), v, t)
			}
		}
		if t != nil {
			st.heap[k] = t
		}
	}
	gk := map[string]bool{}
	for _, p := range preds {
		for k := range fr.out[p].ghost {
			gk[k] = true
		}
	}
	for k := range gk {
		var t *Term
		for i := len(preds) - 1; i >= 0; i-- {
			v, ok := fr.out[preds[i]].ghost[k]
			if !ok {
				if strings.HasPrefix(k, "sort") || strings.HasPrefix(k, "ret:") || strings.HasPrefix(k, "arg:") {
					continue // records of calls: only defined where one happened
				}
				v = TFalse
			}
			if t == nil {
				t = v
			} else {
				t = Ite(fr.edgeCond(preds[i], b), v, t)
			}
		}
		if t != nil {
			st.ghost[k] = t
		}
	}
	return st
}

// run executes the frame's function body symbolically.
func (fr *Frame) run(args []*GVal, entrySt *State) {
	ex := fr.ex
	fn := fr.fn
	for i, p := range fn.Params {
		if i < len(args) {
			fr.vals[p] = args[i]
		}
	}
	fr.findLoops()
	ex.st = entrySt
	order := fr.topo()
	for _, b := range order {
		// predecessors via forward edges
		var preds []*ssa.BasicBlock
		for _, p := range b.Preds {
			if b.Dominates(p) {
				continue // back edge
			}
			if _, ok := fr.reach[p]; ok {
				preds = append(preds, p)
			}
		}
		li := fr.loops[b]
		if b.Index == 0 {
			fr.reach[b] = fr.guard
			ex.st = entrySt
		} else {
			if len(preds) == 0 {
				continue // unreachable
			}
			var rs []*Term
			for _, p := range preds {
				rs = append(rs, fr.edgeCond(p, b))
			}
			fr.reach[b] = Or(rs...)
			ex.st = fr.mergeStates(preds, b)
		}
		fr.curBlock = b
		fr.cur = fr.reach[b]
		if fr.top {
			ex.curBlk = b.Index
		}
		if li != nil {
			fr.enterLoop(li, preds)
		}
		fr.execBlock(b, preds, li)
		fr.out[b] = ex.st
	}
}

func (fr *Frame) execBlock(b *ssa.BasicBlock, preds []*ssa.BasicBlock, li *loopInfo) {
	ex := fr.ex
	for _, in := range b.Instrs {
		switch in := in.(type) {
		case *ssa.Phi:
			if li != nil {
				continue // handled by enterLoop
			}
			fr.vals[in] = fr.mergePhi(in, preds)
		case *ssa.DebugRef:
			if v, ok := in.Object().(*types.Var); ok && v != nil && !v.IsField() {
				fr.dbg[v.Name()] = append(fr.dbg[v.Name()], in.X)
			}
		case *ssa.If:
			c := fr.term(fr.val(in.Cond))
			fr.edge[[2]int{b.Index, b.Succs[0].Index}] = And(fr.reach[b], c)
			fr.edge[[2]int{b.Index, b.Succs[1].Index}] = And(fr.reach[b], Not(c))
			fr.checkBackEdges(b)
		case *ssa.Jump:
			fr.checkBackEdges(b)
		case *ssa.Return:
			var vs []*GVal
			for _, r := range in.Results {
				vs = append(vs, fr.val(r))
			}
			fr.rets = append(fr.rets, retPoint{blk: b.Index, cond: fr.reach[b], vals: vs, st: ex.st, pos: in.Pos()})
		case *ssa.Panic:
			fr.doPanic(in)
		default:
			fr.execInstr(in)
		}
	}
}

func (fr *Frame) mergePhi(phi *ssa.Phi, preds []*ssa.BasicBlock) *GVal {
	b := phi.Block()
	var gv []*GVal
	var conds []*Term
	for i, p := range b.Preds {
		if _, ok := fr.reach[p]; !ok || b.Dominates(p) {
			continue
		}
		gv = append(gv, fr.val(phi.Edges[i]))
		conds = append(conds, fr.edgeCond(p, b))
	}
	// values living in local regions are materialised in the state of the edge they come from
	if len(gv) > 1 {
		same := true
		for _, g := range gv[1:] {
			if g != gv[0] {
				same = false
			}
		}
		if !same {
			k := 0
			saved := fr.ex.st
			for _, p := range b.Preds {
				if _, ok := fr.reach[p]; !ok || b.Dominates(p) {
					continue
				}
				v := gv[k]
				if (v.Reg != nil || (v.T == nil && v.Origin != nil)) && fr.out[p] != nil {
					sameReg := true
					for _, o := range gv {
						if o.Reg != v.Reg {
							sameReg = false
						}
					}
					if !sameReg || v.Reg == nil {
						fr.ex.st = fr.out[p]
						gv[k] = &GVal{T: fr.term(v), Typ: v.Typ, Fresh: v.Fresh}
					}
				}
				k++
			}
			fr.ex.st = saved
		}
	}
	return fr.mergeVals(gv, conds, phi.Type())
}

func (fr *Frame) mergeVals(gv []*GVal, conds []*Term, t types.Type) *GVal {
	if len(gv) == 1 {
		return gv[0]
	}
	same := true
	for _, g := range gv[1:] {
		if g != gv[0] {
			same = false
		}
	}
	if same {
		return gv[0]
	}
	// pointer merge
	if gv[0].Ptr != nil && gv[0].T == nil {
		for _, g := range gv[1:] {
			if g.Ptr == nil || !samePtr(g.Ptr, gv[0].Ptr) {
				fr.ex.unsupp("phi of distinct pointers")
				return gv[0]
			}
		}
		return gv[0]
	}
	if gv[0].Tuple != nil {
		res := &GVal{Typ: t}
		for k := range gv[0].Tuple {
			var sub []*GVal
			for _, g := range gv {
				sub = append(sub, g.Tuple[k])
			}
			res.Tuple = append(res.Tuple, fr.mergeVals(sub, conds, gv[0].Tuple[k].Typ))
		}
		return res
	}
	var t0 *Term
	var fresh *Term
	for i := len(gv) - 1; i >= 0; i-- {
		x := fr.term(gv[i])
		f := gv[i].Fresh
		if f == nil {
			f = TFalse
		}
		if t0 == nil {
			t0, fresh = x, f
		} else {
			t0 = Ite(conds[i], x, t0)
			fresh = Ite(conds[i], f, fresh)
		}
	}
	return &GVal{T: t0, Typ: t, Fresh: fresh}
}

func samePtr(a, b *Ptr) bool {
	if a.Cell != b.Cell || a.Ref != b.Ref || a.Global != b.Global || a.Base != b.Base || len(a.Path) != len(b.Path) {
		return false
	}
	for i := range a.Path {
		if a.Path[i] != b.Path[i] {
			return false
		}
	}
	return true
}

func unionProps(a, b []string) []string {
	seen := map[string]bool{}
	var out []string
	for _, l := range [][]string{a, b} {
		for _, x := range l {
			if !seen[x] {
				seen[x] = true
				out = append(out, x)
			}
		}
	}
	return out
}
