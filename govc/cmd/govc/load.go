package main

// Loading /repo into go/ssa and indexing functions, contracts, globals.

import (
	"time"
	"fmt"
	"go/token"
	"go/types"
	"os"
	"path/filepath"
	"sort"
	"strings"

	"golang.org/x/tools/go/packages"
	"golang.org/x/tools/go/ssa"
	"golang.org/x/tools/go/ssa/ssautil"
)

type Prog struct {
	w       *World
	fset    *token.FileSet
	prog    *ssa.Program
	pkg     *ssa.Package // jmespath
	mainPkg *ssa.Package // cmd/jpgo
	funcs   map[string]*ssa.Function
	fnames  []string
	cs      *ContractSet
	specs   map[string]*SpecDef
	specOrder []string
	consts  map[string]*Sort // declared constants
	ufuns   map[string]string // declared uninterpreted functions: name -> declaration text
	ufunOrder []string
	globals map[string]*Term // global variable values after init (value semantics)
	globalWrites []string   // writes to globals outside init
	repo    string
	fresh   int
	assumptions map[string]bool
	tier    string
	srcCache map[string][]string
	needAppendAxiom map[string]bool
	scc     map[string]int
	rawOrder []string
	atoiAxiom bool
	jsonAxiom bool
	setupErrors []string
	lemmas  []*lemmaInfo
	lemmasBuilt bool
	recSpec map[string]bool
	fnTable *Term
	fnTableNotes []string
	copyAxioms map[string]*Sort
	sortAxioms map[string]*Sort
	permAxioms map[string]*Sort
	ghostSorts map[string]*Sort // sorts of the call records (\ret, \arg)
	callees    map[string][]string // static call graph over the functions of the packages (by base name)
	bindings   map[string]bindInfo // roles of the program variables named in contracts (/verif/bindings.json)
	bindOut    map[string]bindInfo // being generated (govc bindings)
	replayStart time.Time          // when the first replay of this run started (replaying is time-boxed)
}

func funcDisplayName(f *ssa.Function) string {
	name := f.Name()
	if recv := f.Signature.Recv(); recv != nil {
		t := recv.Type()
		if p, ok := t.(*types.Pointer); ok {
			name = "(*" + p.Elem().(*types.Named).Obj().Name() + ")." + name
		} else if n, ok := t.(*types.Named); ok {
			name = n.Obj().Name() + "." + name
		}
	}
	if f.Pkg != nil && f.Pkg.Pkg.Name() == "main" {
		name = "main." + name
	}
	return name
}

func LoadProg(repo string) (*Prog, error) {
	cfg := &packages.Config{
		Mode:       packages.LoadAllSyntax,
		Dir:        repo,
		BuildFlags: []string{"-tags=verif"},
		Env:        append(os.Environ(), "GOFLAGS=-mod=mod", "GOPROXY=off", "GOSUMDB=off", "GOTOOLCHAIN=local"),
	}
	pkgs, err := packages.Load(cfg, ".", "./cmd/jpgo")
	if err != nil {
		return nil, err
	}
	if packages.PrintErrors(pkgs) > 0 {
		return nil, fmt.Errorf("package load errors")
	}
	prog, spkgs := ssautil.AllPackages(pkgs, ssa.GlobalDebug|ssa.InstantiateGenerics)
	prog.Build()
	p := &Prog{w: newWorld(), fset: prog.Fset, prog: prog, funcs: map[string]*ssa.Function{},
		consts: map[string]*Sort{}, ufuns: map[string]string{}, globals: map[string]*Term{},
		specs: map[string]*SpecDef{}, repo: repo, assumptions: map[string]bool{}, srcCache: map[string][]string{}}
	for _, sp := range spkgs {
		if sp == nil {
			continue
		}
		switch sp.Pkg.Name() {
		case "jmespath":
			p.pkg = sp
		case "main":
			p.mainPkg = sp
		}
	}
	if p.pkg == nil {
		return nil, fmt.Errorf("package jmespath not found")
	}
	for _, sp := range []*ssa.Package{p.pkg, p.mainPkg} {
		if sp == nil {
			continue
		}
		for _, m := range sp.Members {
			switch m := m.(type) {
			case *ssa.Function:
				p.addFunc(m)
			case *ssa.Type:
				nt, ok := m.Type().(*types.Named)
				if !ok {
					continue
				}
				for _, t := range []types.Type{nt, types.NewPointer(nt)} {
					ms := prog.MethodSets.MethodSet(t)
					for i := 0; i < ms.Len(); i++ {
						f := prog.MethodValue(ms.At(i))
						if f != nil && f.Synthetic == "" {
							p.addFunc(f)
						}
					}
				}
			}
		}
	}
	sort.Strings(p.fnames)
	// contracts
	p.cs = &ContractSet{Funcs: map[string]*Contract{}}
	for _, f := range []string{"verif_contracts.go", "cmd/jpgo/verif_contracts.go"} {
		path := filepath.Join(repo, f)
		if _, err := os.Stat(path); err == nil {
			if err := ParseContractFile(path, p.cs); err != nil {
				return nil, err
			}
		}
	}
	return p, nil
}

func (p *Prog) addFunc(f *ssa.Function) {
	if f.Blocks == nil {
		return
	}
	n := funcDisplayName(f)
	if _, ok := p.funcs[n]; ok {
		return
	}
	p.funcs[n] = f
	p.fnames = append(p.fnames, n)
}

func (p *Prog) isSpecFunc(f *ssa.Function) bool {
	if f == nil || f.Pkg == nil {
		return false
	}
	pos := p.fset.Position(f.Pos())
	return strings.HasSuffix(pos.Filename, "verif_spec.go")
}

func (p *Prog) freshName(base string) string {
	p.fresh++
	base = strings.NewReplacer(" ", "_", "(", "", ")", "", "*", "", ".", "_", "[", "", "]", "", "$", "_", "#", "_", "/", "_", "{", "", "}", "").Replace(base)
	return fmt.Sprintf("%s!%d", base, p.fresh)
}

func (p *Prog) FreshConst(base string, s *Sort) *Term {
	n := p.freshName(base)
	p.consts[n] = s
	return Const(n, s)
}

func (p *Prog) NamedConst(name string, s *Sort) *Term {
	if old, ok := p.consts[name]; ok && old != s {
		panic("const redeclared with different sort: " + name)
	}
	p.consts[name] = s
	return Const(name, s)
}

func (p *Prog) DeclareFun(name string, args []*Sort, ret *Sort) {
	if _, ok := p.ufuns[name]; ok {
		return
	}
	var a []string
	for _, s := range args {
		a = append(a, s.S)
	}
	p.ufuns[name] = fmt.Sprintf("(declare-fun %s (%s) %s)", name, strings.Join(a, " "), ret.S)
	p.ufunOrder = append(p.ufunOrder, name)
}

func (p *Prog) srcLine(pos token.Pos) string {
	if !pos.IsValid() {
		return ""
	}
	ps := p.fset.Position(pos)
	lines, ok := p.srcCache[ps.Filename]
	if !ok {
		data, err := os.ReadFile(ps.Filename)
		if err == nil {
			lines = strings.Split(string(data), "\n")
		}
		p.srcCache[ps.Filename] = lines
	}
	if ps.Line-1 < len(lines) && ps.Line >= 1 {
		return fmt.Sprintf("%s:%d: %s", filepath.Base(ps.Filename), ps.Line, strings.TrimSpace(lines[ps.Line-1]))
	}
	return ""
}
