package main

// `govc check --property Cxx --tier quick|thorough`: the registered check.

import (
	"encoding/json"
	"flag"
	"fmt"
	"os"
	"os/exec"
	"path/filepath"
	"sort"
	"strconv"
	"strings"
	"time"
)

type KnownFinding struct {
	Property   string `json:"property"`
	Obligation string `json:"obligation"`
	Status     string `json:"status"` // "known" or "fixed"
	What       string `json:"what"`
	Input      string `json:"failing_input,omitempty"`
	Commit     string `json:"commit,omitempty"`
}

type KnownFile struct {
	Findings []KnownFinding `json:"findings"`
	Lines    []string       `json:"lines,omitempty"`
}

func loadKnown(path string) *KnownFile {
	kf := &KnownFile{}
	data, err := os.ReadFile(path)
	if err != nil {
		return kf
	}
	json.Unmarshal(data, kf)
	return kf
}

func hasProp(o *Obligation, id string) bool {
	for _, p := range o.Props {
		if p == id {
			return true
		}
	}
	return false
}

type funcReport struct {
	Name        string   `json:"function"`
	Obligations int      `json:"obligations"`
	Discharged  int      `json:"discharged"`
	Unsupported []string `json:"outside_subset_notes,omitempty"`
}

func cmdCheck(args []string) int {
	fs := flag.NewFlagSet("check", flag.ExitOnError)
	repo := fs.String("repo", "/repo", "repository root")
	prop := fs.String("property", "", "property id")
	tier := fs.String("tier", "quick", "quick|thorough")
	verifDir := fs.String("verif", "/verif", "verif root")
	keep := fs.String("keep", "", "keep SMT queries in this directory")
	fs.Parse(args)
	if t := os.Getenv("VERIF_TIER"); t != "" && *tier == "" {
		*tier = t
	}
	seed := 0
	if s := os.Getenv("VERIF_SEED"); s != "" {
		seed, _ = strconv.Atoi(s)
	}
	start := time.Now()
	id := *prop
	p := setup(*repo, *tier)
	timeout := 15 * time.Second
	if *tier == "thorough" {
		timeout = 60 * time.Second
	}
	dir := *keep
	if dir == "" {
		d, _ := os.MkdirTemp("", "govc-check")
		dir = d
		defer os.RemoveAll(d)
	} else {
		os.MkdirAll(dir, 0o755)
	}
	known := loadKnown(filepath.Join(*verifDir, "known_findings.json"))

	// generate obligations for every function under contract
	var all []*Obligation
	var reports []*funcReport
	repOf := map[string]*funcReport{}
	var outside []string
	var outsideFns []string
	var crashes []string
	var missing []string
	// first pass: generate every function's obligations
	exOf := map[string]*Exec{}
	crashOf := map[string]string{}
	for _, n := range p.cs.Order {
		c := p.cs.Funcs[n]
		if _, ok := p.funcs[baseName(n)]; !ok || c.Trusted || c.Skip {
			continue
		}
		ex, crashed := p.verifyFuncSafe(n)
		if crashed != "" {
			crashOf[n] = crashed
			continue
		}
		exOf[n] = ex
	}
	// The proof of a clause uses, at every call, all the postconditions of the callee's contract, and
	// inside a function all its loop invariants. So the obligations a property rests on are: those that
	// carry its tag, and the contract obligations (postconditions, invariants, call preconditions) of
	// every function under contract reachable from a function that has tagged obligations.
	owner := map[string]bool{}
	for n, ex := range exOf {
		for _, o := range ex.obls {
			if hasProp(o, id) {
				owner[n] = true
				break
			}
		}
	}
	for n := range crashOf {
		if participates(p.cs.Funcs[n], id) {
			owner[n] = true
		}
	}
	depends := map[string]bool{}
	var visit func(n string)
	visit = func(n string) {
		if depends[n] {
			return
		}
		depends[n] = true
		for _, cal := range p.callees[baseName(n)] {
			if c := p.contractFor(n, cal); c != nil {
				visit(c.Func)
			}
		}
	}
	for n := range owner {
		visit(n)
	}
	// ... and a property about what a call returns does not hold for an input on which the call panics
	// or does not return, so the safety and termination obligations of those functions count as well
	// (found by seed C17-d: a panic in the lexer is a Compile that returns "neither"). Only the frame
	// obligations stay with the properties that are about writes.
	isContractObl := func(o *Obligation) bool {
		return o.Kind != "frame" && !strings.Contains(o.Name, "/frame/")
	}
	nDep := 0
	for _, n := range p.cs.Order {
		c := p.cs.Funcs[n]
		if _, ok := p.funcs[baseName(n)]; !ok {
			missing = append(missing, n)
			continue
		}
		if c.Trusted || c.Skip {
			continue
		}
		if crashed, bad := crashOf[n]; bad {
			if participates(c, id) || depends[n] {
				crashes = append(crashes, n+": "+crashed)
			}
			continue
		}
		ex := exOf[n]
		fr := &funcReport{Name: n}
		for _, o := range ex.obls {
			if hasProp(o, id) {
				all = append(all, o)
				fr.Obligations++
			} else if depends[n] && isContractObl(o) {
				all = append(all, o)
				fr.Obligations++
				nDep++
			}
		}
		if len(ex.unsupported) > 0 {
			fr.Unsupported = ex.unsupported
			if fr.Obligations > 0 || participates(c, id) || depends[n] {
				outside = append(outside, n+": "+strings.Join(ex.unsupported, "; "))
				outsideFns = append(outsideFns, n)
			}
		}
		if fr.Obligations > 0 {
			reports = append(reports, fr)
			repOf[n] = fr
		}
	}
	// lemmas and global checks owned by the property
	all = append(all, p.globalObligations(id)...)

	p.dischargeAll(all, timeout, dir, 8)

	// vacuity: each function's assumptions must be satisfiable
	vac := p.vacuityChecks(all, dir)

	violations := 0
	discharged := 0
	var lines []string
	var samples []interface{}
	backend := map[string]int{}
	solverSecs := 0.0
	replayDir := filepath.Join(*verifDir, "replays", id)
	var undisch []string
	knownHit := map[string]bool{}
	for _, o := range all {
		solverSecs += o.Secs
		if o.Verdict == "unsat" {
			discharged++
			backend[o.Solver]++
			if r := repOf[o.Func]; r != nil {
				r.Discharged++
			}
			if len(samples) < 6 {
				samples = append(samples, map[string]interface{}{"obligation": o.Name, "verdict": "proved", "backend": o.Solver, "seconds": round3(o.Secs), "where": o.Where})
			}
			continue
		}
		// not discharged
		kf := matchKnown(known, id, o.Name)
		if kf != nil && kf.Status == "known" {
			if !knownHit[kf.Obligation] {
				knownHit[kf.Obligation] = true
				lines = append(lines, fmt.Sprintf("KNOWN-FINDING: property=%s %s [%s] %s", id, kf.What, o.Name, kf.Input))
			}
			continue
		}
		violations++
		undisch = append(undisch, o.Name+" ("+o.Verdict+")")
		path := p.writeReplay(replayDir, id, o, dir)
		suffix := ""
		if !replayHasInput(path) {
			suffix = " no-failing-input-found"
		}
		lines = append(lines, fmt.Sprintf("VIOLATION property=%s replay=%s obligation=%s verdict=%s%s", id, path, o.Name, o.Verdict, suffix))
	}
	for _, m := range missing {
		// a function under contract disappeared: its obligations cannot be generated
		if contractMentionsProp(p.cs.Funcs[m], id) {
			violations++
			os.MkdirAll(replayDir, 0o755)
			path := filepath.Join(replayDir, "missing-"+sanitize(m)+".json")
			writeJSON(path, map[string]interface{}{"property": id, "obligation": m + "/exists", "reason": "function under contract not found in /repo's current source; its obligations cannot be generated"})
			lines = append(lines, fmt.Sprintf("VIOLATION property=%s replay=%s obligation=%s/exists no-failing-input-found", id, path, m))
		}
	}
	for i, n := range outsideFns {
		// the function uses something the verifier cannot model: nothing in it counts as proved
		violations++
		os.MkdirAll(replayDir, 0o755)
		path := filepath.Join(replayDir, "outside-subset-"+sanitize(n)+".json")
		writeJSON(path, map[string]interface{}{"property": id, "obligation": n + "/within-verified-subset", "reason": "the function now uses constructs outside the verified subset; its obligations cannot be generated faithfully", "details": outside[i]})
		lines = append(lines, fmt.Sprintf("VIOLATION property=%s replay=%s obligation=%s/within-verified-subset no-failing-input-found", id, path, n))
	}
	for _, cmsg := range crashes {
		violations++
		os.MkdirAll(replayDir, 0o755)
		n := strings.SplitN(cmsg, ":", 2)[0]
		path := filepath.Join(replayDir, "vcgen-failed-"+sanitize(n)+".json")
		writeJSON(path, map[string]interface{}{"property": id, "obligation": n + "/vc-generation", "reason": "obligation generation failed for this function (it verified on the unchanged tree)", "details": cmsg})
		lines = append(lines, fmt.Sprintf("VIOLATION property=%s replay=%s obligation=%s/vc-generation no-failing-input-found", id, path, n))
	}
	for i, se := range p.setupErrors {
		// package-level state could not be modelled: global-immutability and every proof using globals is off
		violations++
		os.MkdirAll(replayDir, 0o755)
		path := filepath.Join(replayDir, fmt.Sprintf("package-init-%d.json", i))
		writeJSON(path, map[string]interface{}{"property": id, "obligation": "init/within-verified-subset", "reason": "package-level variables are initialised with constructs outside the verified subset (on the unchanged tree all of them are plain literals)", "details": se})
		lines = append(lines, fmt.Sprintf("VIOLATION property=%s replay=%s obligation=init/within-verified-subset no-failing-input-found", id, path))
	}
	for _, v := range vac {
		violations++
		os.MkdirAll(replayDir, 0o755)
		path := filepath.Join(replayDir, "vacuous-"+sanitize(v)+".json")
		writeJSON(path, map[string]interface{}{"property": id, "obligation": v + "/assumptions-satisfiable", "reason": "the assumptions of this function are contradictory: every obligation would hold vacuously"})
		lines = append(lines, fmt.Sprintf("VIOLATION property=%s replay=%s obligation=%s/assumptions-satisfiable no-failing-input-found", id, path, v))
	}
	if len(all) == 0 {
		violations++
		lines = append(lines, fmt.Sprintf("VIOLATION property=%s replay=%s obligation=none-generated no-failing-input-found", id, filepath.Join(replayDir, "none.json")))
		os.MkdirAll(replayDir, 0o755)
		writeJSON(filepath.Join(replayDir, "none.json"), map[string]interface{}{"property": id, "reason": "no obligation was generated for this property"})
	}
	sort.Strings(lines)
	for _, l := range lines {
		fmt.Println(l)
	}
	if os.Getenv("GOVC_SLOW") != "" {
		sorted := append([]*Obligation{}, all...)
		sort.Slice(sorted, func(i, j int) bool { return sorted[i].Secs > sorted[j].Secs })
		idx := map[*Obligation]int{}
		for i, o := range all {
			idx[o] = i
		}
		for i := 0; i < 12 && i < len(sorted); i++ {
			fmt.Printf("SLOW %.2fs %s %s q%04d\n", sorted[i].Secs, sorted[i].Solver, sorted[i].Name, idx[sorted[i]])
		}
	}
	// evidence
	var as []string
	for a := range p.assumptions {
		as = append(as, a)
	}
	as = append(as, "Go toolchain, go/types, go/ssa and govc's SSA-to-SMT translation are trusted", "SMT solvers z3 4.8.12, z3 5.1.0, cvc5 1.0 are trusted (an obligation counts as discharged when one answers unsat and none answers sat first)",
		"int is modelled as mathematical Int with an explicit in-range obligation on every + - * and unary minus; lengths are bounded by 2^48 (address space)",
		"spec functions in /repo/verif_spec.go are trusted transcriptions of the JMESPath specification; recursive ones are assumed terminating")
	sort.Strings(as)
	var fnames []string
	for _, r := range reports {
		fnames = append(fnames, r.Name)
	}
	var unverified []string
	for _, n := range p.fnames {
		if _, ok := p.cs.Funcs[n]; !ok && !p.isSpecFunc(p.funcs[n]) {
			unverified = append(unverified, n)
		}
	}
	// thorough tier: the machinery is tested against the defects recorded for this property - every
	// seeded patch in /verif/seeded/<id>-*/ is applied to a scratch copy of /repo (outside /repo and
	// /verif, removed afterwards) and the quick check must fail there
	var selftest []interface{}
	if *tier == "thorough" && violations == 0 && os.Getenv("GOVC_NO_SELFTEST") == "" {
		selftest = runSelftest(*repo, *verifDir, id)
		for _, r := range selftest {
			if m := r.(map[string]interface{}); m["detected"] == false && m["applies"] == true {
				lines = append(lines, fmt.Sprintf("SELFTEST-MISS: property=%s seeded defect %s is not detected by this check (a hole in the contracts, not a violation of the property)", id, m["seed"]))
			}
		}
	}
	ev := map[string]interface{}{
		"property_id": id, "tier": *tier, "seed": seed, "level": "proof",
		"coverage": map[string]interface{}{
			"obligations": len(all), "discharged": discharged,
			"checker_cmd":  fmt.Sprintf("bin/govc check --property %s --tier %s  (per obligation: z3 4.8.12 | z3 5.1.0 | cvc5 1.0 raced, timeout %s)", id, *tier, timeout),
			"trusted_base": as,
			"functions_under_contract": reports,
			"backends":          backend,
			"solver_seconds":    round3(solverSecs),
			"samples":           samples,
			"undischarged":      undisch,
			"known_findings":    keysOf(knownHit),
			"outside_subset":    outside,
			"functions_without_contract_in_packages": unverified,
			"dependency_obligations_included": nDep,
			"selftest_seeded_defects":         selftest,
			"explanation":       "every obligation is generated from the SSA form of /repo's current working tree plus the //@ contracts in /repo/verif_contracts.go; unsat of the negated obligation holds for all values of the symbolic inputs",
		},
		"assumptions": as,
		"wall_s":      round3(time.Since(start).Seconds()),
		"violations":  violations,
	}
	os.MkdirAll(filepath.Join(*verifDir, "evidence"), 0o755)
	writeJSON(filepath.Join(*verifDir, "evidence", id+".json"), ev)
	fmt.Printf("property=%s tier=%s obligations=%d discharged=%d known=%d violations=%d wall=%.1fs\n", id, *tier, len(all), discharged, len(knownHit), violations, time.Since(start).Seconds())
	if violations > 0 {
		return 1
	}
	return 0
}

func keysOf(m map[string]bool) []string {
	var ks []string
	for k := range m {
		ks = append(ks, k)
	}
	sort.Strings(ks)
	return ks
}

func round3(f float64) float64 { return float64(int(f*1000+0.5)) / 1000 }

func contractMentionsProp(c *Contract, id string) bool {
	if c == nil {
		return false
	}
	for _, p := range c.Props {
		if p == id {
			return true
		}
	}
	for _, cls := range [][]*Clause{c.Requires, c.Ensures} {
		for _, cl := range cls {
			for _, p := range cl.Props {
				if p == id {
					return true
				}
			}
		}
	}
	return false
}

func matchKnown(kf *KnownFile, prop, obl string) *KnownFinding {
	for i := range kf.Findings {
		f := &kf.Findings[i]
		if f.Property == prop && f.Obligation == obl {
			return f
		}
	}
	return nil
}

func sanitize(s string) string {
	return strings.NewReplacer("/", "_", "(", "", ")", "", "*", "", " ", "_", "#", "-", ":", "_", "<", "lt", ">", "gt", "=", "eq", "+", "plus", "[", "", "]", "").Replace(s)
}

func writeJSON(path string, v interface{}) {
	data, _ := json.MarshalIndent(v, "", " ")
	os.MkdirAll(filepath.Dir(path), 0o755)
	os.WriteFile(path, append(data, '\n'), 0o644)
}

func replayHasInput(path string) bool {
	data, err := os.ReadFile(path)
	if err != nil {
		return false
	}
	var m map[string]interface{}
	json.Unmarshal(data, &m)
	b, _ := m["reproduced_on_real_code"].(bool)
	return b
}

// vacuityChecks: for each function with obligations, its accumulated assumptions must be satisfiable.
func (p *Prog) vacuityChecks(obls []*Obligation, dir string) []string {
	last := map[string]*Obligation{}
	var order []string
	for _, o := range obls {
		if o.Facts == nil {
			continue
		}
		if _, ok := last[o.Func]; !ok {
			order = append(order, o.Func)
		}
		if cur := last[o.Func]; cur == nil || o.NFacts > cur.NFacts {
			last[o.Func] = o
		}
	}
	var bad []string
	type res struct {
		f string
		v string
	}
	ch := make(chan res, len(order))
	sem := make(chan struct{}, 8)
	for _, f := range order {
		go func(f string) {
			sem <- struct{}{}
			defer func() { <-sem }()
			o := last[f]
			if o == nil {
				ch <- res{f, "skip"}
				return
			}
			// only unconditional assumptions (requires, typing) are checked for consistency: facts before the first obligation
			first := o
			for _, x := range obls {
				if x.Func == f && x.Facts != nil && x.NFacts < first.NFacts {
					first = x
				}
			}
			q := p.buildScript(first.Facts[:first.NFacts], nil)
			r := runPortfolio(q, 5*time.Second, dir, "vac_"+sanitize(f), false)
			ch <- res{f, r.verdict}
		}(f)
	}
	for range order {
		r := <-ch
		if r.v == "unsat" {
			bad = append(bad, r.f)
		}
	}
	sort.Strings(bad)
	return bad
}

// globalObligations: lemma obligations owned by a property.
func (p *Prog) globalObligations(id string) []*Obligation {
	var out []*Obligation
	// every lemma is offered to every proof (by trigger), so every check proves all of them
	for _, o := range p.lemmaObligations() {
		out = append(out, o)
	}
	_ = id
	return out
}

// verifyFuncSafe runs VC generation for one function and converts a generator panic into a report.
func (p *Prog) verifyFuncSafe(n string) (ex *Exec, crashed string) {
	defer func() {
		if r := recover(); r != nil {
			crashed = fmt.Sprint(r)
			ex = nil
		}
	}()
	return p.verifyFunc(n), ""
}

// participates: does a function under contract carry (possibly trivially discharged) obligations of a property?
func participates(c *Contract, id string) bool {
	if contractMentionsProp(c, id) {
		return true
	}
	if variantOf(c.Func) != "" {
		return false // a contract variant serves only the properties it names
	}
	switch id {
	case "C05":
		return true // safety and termination obligations exist for every function
	case "C06", "C12", "C13":
		return c.HasAssigns // frame obligations
	}
	for _, ls := range c.Loops {
		for _, cl := range ls.Invariants {
			for _, p := range cl.Props {
				if p == id {
					return true
				}
			}
		}
	}
	return false
}

// runSelftest applies each seeded defect recorded for the property to a scratch copy of the repository
// and runs the quick check on it; the check is expected to fail.
func runSelftest(repo, verifDir, id string) []interface{} {
	var out []interface{}
	dirs, _ := filepath.Glob(filepath.Join(verifDir, "seeded", id+"-*"))
	sort.Strings(dirs)
	for _, d := range dirs {
		patch := filepath.Join(d, "patch.diff")
		if _, err := os.Stat(patch); err != nil {
			continue
		}
		res := map[string]interface{}{"seed": filepath.Base(d)}
		scratch, err := os.MkdirTemp("", "govc-selftest")
		if err != nil {
			continue
		}
		func() {
			defer os.RemoveAll(scratch)
			rcopy := filepath.Join(scratch, "repo")
			vcopy := filepath.Join(scratch, "verif")
			os.MkdirAll(vcopy, 0o755)
			if b, err := exec.Command("cp", "-r", repo, rcopy).CombinedOutput(); err != nil {
				res["applies"], res["note"] = false, "copy failed: "+string(b)
				return
			}
			if data, err := os.ReadFile(filepath.Join(verifDir, "known_findings.json")); err == nil {
				os.WriteFile(filepath.Join(vcopy, "known_findings.json"), data, 0o644)
			}
			rf := exec.Command("git", "update-index", "-q", "--refresh")
			rf.Dir = rcopy
			rf.Run()
			ap := exec.Command("git", "apply", "--3way", patch)
			ap.Dir = rcopy
			if b, err := ap.CombinedOutput(); err != nil {
				res["applies"], res["note"] = false, "patch does not apply to the current tree: "+firstLines(string(b), 2)
				return
			}
			res["applies"] = true
			cmd := exec.Command(os.Args[0], "check", "--repo", rcopy, "--verif", vcopy, "--property", id, "--tier", "quick")
			cmd.Env = append(os.Environ(), "GOVC_NO_SELFTEST=1")
			b, _ := cmd.CombinedOutput()
			text := string(b)
			res["detected"] = strings.Contains(text, "VIOLATION property="+id)
			n := 0
			for _, l := range strings.Split(text, "\n") {
				if strings.HasPrefix(l, "VIOLATION") {
					if n == 0 {
						if i := strings.Index(l, "obligation="); i >= 0 {
							res["first_obligation"] = strings.Fields(l[i+len("obligation="):])[0]
						}
					}
					n++
				}
			}
			res["violations_reported"] = n
		}()
		out = append(out, res)
	}
	return out
}
