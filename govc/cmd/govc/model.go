package main

// Model extraction by scalar probing (get-value on scalars only), with pinning
// of earlier answers and size caps so that the witness is small enough to replay.

import (
	"fmt"
	"go/types"
	"math"
	"os"
	"os/exec"
	"path/filepath"
	"strconv"
	"strings"
	"time"
)

// ---- s-expressions ----

type sexp struct {
	atom string
	list []*sexp
}

func parseSexps(s string) []*sexp {
	var out []*sexp
	i := 0
	var parse func() *sexp
	skip := func() {
		for i < len(s) && (s[i] == ' ' || s[i] == '\n' || s[i] == '\t' || s[i] == '\r') {
			i++
		}
	}
	parse = func() *sexp {
		skip()
		if i >= len(s) {
			return nil
		}
		if s[i] == '(' {
			i++
			n := &sexp{list: []*sexp{}}
			for {
				skip()
				if i >= len(s) {
					return n
				}
				if s[i] == ')' {
					i++
					return n
				}
				c := parse()
				if c == nil {
					return n
				}
				n.list = append(n.list, c)
			}
		}
		if s[i] == '|' {
			j := strings.IndexByte(s[i+1:], '|')
			if j < 0 {
				j = len(s) - i - 1
			}
			a := s[i : i+j+2]
			i += j + 2
			return &sexp{atom: a}
		}
		if s[i] == '"' {
			j := i + 1
			for j < len(s) && s[j] != '"' {
				j++
			}
			a := s[i : j+1]
			i = j + 1
			return &sexp{atom: a}
		}
		j := i
		for j < len(s) && !strings.ContainsRune(" \n\t\r()", rune(s[j])) {
			j++
		}
		a := s[i:j]
		i = j
		return &sexp{atom: a}
	}
	for {
		skip()
		if i >= len(s) {
			break
		}
		x := parse()
		if x == nil {
			break
		}
		out = append(out, x)
	}
	return out
}

func (x *sexp) String() string {
	if x.list == nil {
		return x.atom
	}
	var ps []string
	for _, c := range x.list {
		ps = append(ps, c.String())
	}
	return "(" + strings.Join(ps, " ") + ")"
}

// ---- probing ----

type prober struct {
	deadline time.Time // no further solver calls after this
	relaxedUsed bool // some values come from a query without the quantified hypotheses
	p       *Prog
	asserts []*Term
	pins    []*Term
	known   map[int]string // term id -> SMT value text
	dir     string
	round   int
	solver  string
	log     []string
}

// ask obtains values for the given scalar terms (those not yet known).
func (pb *prober) ask(terms []*Term, caps []*Term) bool {
	var need []*Term
	seen := map[int]bool{}
	for _, t := range terms {
		if _, ok := pb.known[t.id]; !ok && !seen[t.id] {
			seen[t.id] = true
			need = append(need, t)
		}
	}
	if len(need) == 0 {
		return true
	}
	relaxed := false
	try := func(withCaps bool) bool {
		if !pb.deadline.IsZero() && time.Now().After(pb.deadline) {
			return false
		}
		as := append([]*Term{}, pb.asserts...)
		if relaxed && len(as) > 0 {
			// candidate models only: universally quantified hypotheses are left out (the replay on the real
			// code decides whether the candidate is a counterexample); the negated goal stays
			var keep []*Term
			for i, a := range as {
				if i == len(as)-1 || !mentionsQuantifier(a) {
					keep = append(keep, a)
				}
			}
			as = keep
		}
		as = append(as, pb.pins...)
		if withCaps {
			as = append(as, caps...)
		}
		var sb strings.Builder
		base := pb.p.buildScript(as, nil)
		if relaxed {
			base = pb.p.buildScriptOpts(as, nil, false, true)
		}
		base = strings.TrimSuffix(strings.TrimSpace(base), "(check-sat)")
		sb.WriteString(base)
		var names []string
		for i, t := range need {
			n := fmt.Sprintf("probe!%d", i)
			names = append(names, n)
			fmt.Fprintf(&sb, "(define-fun %s () %s %s)\n", n, t.S.S, t.String())
		}
		sb.WriteString("(check-sat)\n(get-value (" + strings.Join(names, " ") + "))\n")
		pb.round++
		f := filepath.Join(pb.dir, fmt.Sprintf("probe%02d.smt2", pb.round))
		os.WriteFile(f, []byte(sb.String()), 0o644)
		order := [][]string{{"z3-new", "-smt2", "-T:10"}, {"cvc5", "--lang=smt2", "--dt-nested-rec", "--fp-exp", "--tlimit=10000"}, {"z3", "-smt2", "-T:10"}}
		if pb.solver != "" {
			// keep using the solver that produced the first model
			for i, o := range order {
				if o[0] == pb.solver {
					order[0], order[i] = order[i], order[0]
				}
			}
		}
		for _, cmdl := range order {
			cmd := exec.Command(cmdl[0], append(cmdl[1:], f)...)
			done := make(chan []byte, 1)
			go func() { out, _ := cmd.CombinedOutput(); done <- out }()
			var out []byte
			select {
			case out = <-done:
			case <-time.After(11 * time.Second):
				if cmd.Process != nil {
					cmd.Process.Kill()
				}
				continue
			}
			text := string(out)
			if !strings.HasPrefix(strings.TrimSpace(text), "sat") {
				continue
			}
			rest := strings.TrimSpace(strings.TrimPrefix(strings.TrimSpace(text), "sat"))
			xs := parseSexps(rest)
			if len(xs) == 0 || xs[0].list == nil {
				continue
			}
			got := 0
			for _, pair := range xs[0].list {
				if len(pair.list) != 2 {
					continue
				}
				nm := pair.list[0].atom
				if !strings.HasPrefix(nm, "probe!") {
					continue
				}
				k, _ := strconv.Atoi(strings.TrimPrefix(nm, "probe!"))
				if k < len(need) {
					v := pair.list[1].String()
					pb.known[need[k].id] = v
					if pin := pinTerm(need[k], v); pin != nil {
						pb.pins = append(pb.pins, pin)
					}
					got++
				}
			}
			if got == len(need) {
				pb.solver = cmdl[0]
				return true
			}
		}
		return false
	}
	if len(caps) > 0 && try(true) {
		return true
	}
	if try(false) {
		return true
	}
	relaxed = true
	pb.relaxedUsed = true
	if len(caps) > 0 && try(true) {
		return true
	}
	return try(false)
}

func mentionsQuantifier(t *Term) bool {
	found := false
	collectSyms([]*Term{t}, func(x *Term) {
		if x.Bind != nil || x.Head == "forall" || x.Head == "exists" {
			found = true
		}
	})
	return found
}

// preferFirst pins as many of the given soft constraints as remain satisfiable together.
func (pb *prober) preferFirst(soft []*Term) {
	as := append([]*Term{}, pb.asserts...)
	as = append(as, soft...)
	q := pb.p.buildScript(as, nil)
	r := runPortfolio(q, 5*time.Second, pb.dir, "soft", false)
	if r.verdict == "sat" {
		pb.pins = append(pb.pins, soft...)
		return
	}
	// try them one at a time
	for _, s := range soft {
		if !pb.deadline.IsZero() && time.Now().After(pb.deadline.Add(-50*time.Second)) {
			break // keep at least a minute for the probes themselves
		}
		as := append([]*Term{}, pb.asserts...)
		as = append(as, pb.pins...)
		as = append(as, s)
		r := runPortfolio(pb.p.buildScript(as, nil), 3*time.Second, pb.dir, "soft1", false)
		if r.verdict == "sat" {
			pb.pins = append(pb.pins, s)
		}
	}
}

// pinTerm returns an equality fixing a probed scalar to its model value.
func pinTerm(t *Term, v string) *Term {
	switch {
	case t.S == SInt:
		if n, ok := parseSMTInt(v); ok {
			return Eq(t, IntLitStr(n))
		}
	case t.S == SBool:
		if v == "true" {
			return t
		}
		if v == "false" {
			return Not(t)
		}
	case t.S.IsBV():
		if strings.HasPrefix(v, "#x") || strings.HasPrefix(v, "#b") {
			return Eq(t, mk(v, t.S))
		}
	case t.S == SF64:
		if strings.HasPrefix(v, "(fp ") || strings.HasPrefix(v, "(_ ") {
			return Eq(t, mk(v, SF64))
		}
	}
	return nil
}

func parseSMTInt(v string) (string, bool) {
	v = strings.TrimSpace(v)
	if strings.HasPrefix(v, "(-") {
		inner := strings.TrimSpace(strings.TrimSuffix(strings.TrimPrefix(v, "(-"), ")"))
		if _, err := strconv.ParseUint(inner, 10, 64); err == nil {
			return "-" + inner, true
		}
		return "", false
	}
	if _, err := strconv.ParseUint(v, 10, 64); err == nil {
		return v, true
	}
	return "", false
}

func parseBV(v string) (uint64, bool) {
	if strings.HasPrefix(v, "#x") {
		n, err := strconv.ParseUint(v[2:], 16, 64)
		return n, err == nil
	}
	if strings.HasPrefix(v, "#b") {
		n, err := strconv.ParseUint(v[2:], 2, 64)
		return n, err == nil
	}
	return 0, false
}

func parseFP(v string) (float64, bool) {
	xs := parseSexps(v)
	if len(xs) != 1 {
		return 0, false
	}
	x := xs[0]
	if len(x.list) == 4 && x.list[0].atom == "fp" {
		s, ok1 := parseBV(x.list[1].atom)
		e, ok2 := parseBV(x.list[2].atom)
		m, ok3 := parseBV(x.list[3].atom)
		if ok1 && ok2 && ok3 {
			return math.Float64frombits(s<<63 | e<<52 | m), true
		}
	}
	if len(x.list) >= 2 && x.list[0].atom == "_" {
		switch x.list[1].atom {
		case "+zero":
			return 0, true
		case "-zero":
			return math.Copysign(0, -1), true
		case "NaN":
			return math.NaN(), true
		case "+oo":
			return math.Inf(1), true
		case "-oo":
			return math.Inf(-1), true
		}
	}
	return 0, false
}

// ---- building Go literals from the model ----

type builder struct {
	pb      *prober
	fr      *Frame
	w       *World
	notes   []string
	ok      bool
	maxLen  int
}

func (b *builder) val(t *Term) (string, bool) {
	v, ok := b.pb.known[t.id]
	return v, ok
}

func (b *builder) intOf(t *Term, caps ...*Term) (int64, bool) {
	if !b.pb.ask([]*Term{t}, caps) {
		return 0, false
	}
	v, _ := b.val(t)
	s, ok := parseSMTInt(v)
	if !ok {
		return 0, false
	}
	n, err := strconv.ParseInt(s, 10, 64)
	return n, err == nil
}

func (b *builder) boolOf(t *Term) (bool, bool) {
	if !b.pb.ask([]*Term{t}, nil) {
		return false, false
	}
	v, _ := b.val(t)
	return v == "true", v == "true" || v == "false"
}

func smallCap(t *Term, n int64) *Term { return And(Le(IntLit(-n), t), Le(t, IntLit(n))) }

// goLit builds a Go expression for the model value of term t of Go type ty.
func (b *builder) goLit(t *Term, ty types.Type, depth int) string {
	w := b.w
	fail := func(msg string) string {
		b.ok = false
		b.notes = append(b.notes, msg)
		return "nil"
	}
	if depth > 6 {
		return fail("model too deep")
	}
	switch u := ty.Underlying().(type) {
	case *types.Basic:
		switch {
		case t.S == SInt:
			n, ok := b.intOf(t, smallCap(t, 8))
			if !ok {
				return fail("no int value")
			}
			return fmt.Sprintf("%s(%d)", typeStr(ty), n)
		case t.S == SBool:
			v, ok := b.boolOf(t)
			if !ok {
				return fail("no bool value")
			}
			return fmt.Sprint(v)
		case t.S.IsBV():
			if !b.pb.ask([]*Term{t}, nil) {
				return fail("no bv value")
			}
			v, _ := b.val(t)
			n, ok := parseBV(v)
			if !ok {
				return fail("bad bv " + v)
			}
			if u.Info()&types.IsUnsigned == 0 {
				wd := t.S.BVWidth()
				if wd < 64 && n&(1<<uint(wd-1)) != 0 {
					return fmt.Sprintf("%s(%d)", typeStr(ty), int64(n)-(1<<uint(wd)))
				}
				return fmt.Sprintf("%s(%d)", typeStr(ty), int64(n))
			}
			return fmt.Sprintf("%s(%d)", typeStr(ty), n)
		case t.S == SF64:
			if !b.pb.ask([]*Term{t}, nil) {
				return fail("no float value")
			}
			v, _ := b.val(t)
			f, ok := parseFP(v)
			if !ok {
				return fail("bad fp " + v)
			}
			return fmt.Sprintf("math.Float64frombits(0x%x)", math.Float64bits(f))
		case t.S == SStr:
			return b.strLit(t)
		}
	case *types.Slice:
		ln := w.SlLen(t)
		n, ok := b.intOf(ln, Le(ln, IntLit(int64(b.maxLen))))
		if !ok {
			return fail("no slice length")
		}
		if n > 64 {
			return fail(fmt.Sprintf("slice length %d too large to replay", n))
		}
		isnil, _ := b.boolOf(w.SlNil(t))
		if isnil && n == 0 {
			return typeStr(ty) + "(nil)"
		}
		var els []string
		for i := int64(0); i < n; i++ {
			els = append(els, b.goLit(Select(w.SlArr(t), IntLit(i)), u.Elem(), depth+1))
		}
		return typeStr(ty) + "{" + strings.Join(els, ", ") + "}"
	case *types.Interface:
		if t.S == SVal {
			return b.valLit(t, depth)
		}
		if t.S == SErr {
			isnil, _ := b.boolOf(App("(_ is ErrNil)", SBool, t))
			if isnil {
				return "nil"
			}
			return `errors.New("model error")`
		}
	case *types.Struct:
		if t.S == SNode {
			return b.nodeLit(t, depth)
		}
		si := w.StructInfoOfSort(t.S)
		if si == nil {
			return fail("unknown struct " + t.S.S)
		}
		var fs []string
		for _, f := range si.Fields {
			fs = append(fs, f.Name+": "+b.goLit(w.Field(t, f.Name), f.T, depth+1))
		}
		return typeStr(ty) + "{" + strings.Join(fs, ", ") + "}"
	case *types.Pointer:
		if t.S.S == "PInt" {
			isnil, _ := b.boolOf(App("(_ is pnil)", SBool, t))
			if isnil {
				return "nil"
			}
			n, ok := b.intOf(App("pval", SInt, t), smallCap(App("pval", SInt, t), 8))
			if !ok {
				return fail("no *int value")
			}
			return fmt.Sprintf("govcIntPtr(%d)", n)
		}
	}
	return fail("cannot build a value of type " + ty.String())
}

func typeStr(t types.Type) string {
	return types.TypeString(t, func(p *types.Package) string {
		if p.Name() == "jmespath" {
			return ""
		}
		return p.Name()
	})
}

func (b *builder) strLit(t *Term) string {
	ln := App("gs.len", SInt, t)
	n, ok := b.intOf(ln, Le(ln, IntLit(6)))
	if !ok {
		b.ok = false
		return `""`
	}
	if n > 64 {
		b.ok = false
		b.notes = append(b.notes, "string too long")
		return `""`
	}
	// a known literal?
	for s, lt := range b.w.strLits {
		if lt == t {
			return strconv.Quote(s)
		}
	}
	var bs []byte
	var terms []*Term
	for i := int64(0); i < n; i++ {
		terms = append(terms, App("gs.at", SBV8, t, IntLit(i)))
	}
	b.pb.ask(terms, nil)
	for _, bt := range terms {
		v, _ := b.val(bt)
		x, ok := parseBV(v)
		if !ok {
			x = 'a'
		}
		bs = append(bs, byte(x))
	}
	// make the bytes consistent with the runes the model says are decoded from this string
	var runeTerms []*Term
	seen := map[int]bool{}
	collectSyms(b.pb.asserts, func(x *Term) {
		if x.Head == "utf8.rune" && len(x.Args) == 1 && x.Args[0].Head == "gs.sub" && x.Args[0].Args[0] == t && !x.open && !seen[x.id] {
			seen[x.id] = true
			runeTerms = append(runeTerms, x)
		}
		if x.Head == "specRuneAt" && len(x.Args) == 2 && x.Args[0] == t && !x.open && !seen[x.id] {
			seen[x.id] = true
			runeTerms = append(runeTerms, x)
		}
	})
	for _, rt := range runeTerms {
		loT := rt.Args[0]
		if rt.Head == "specRuneAt" {
			loT = rt.Args[1]
		} else {
			loT = rt.Args[0].Args[1]
		}
		lo, ok := b.intOf(loT)
		if !ok || lo < 0 || lo >= n {
			continue
		}
		if !b.pb.ask([]*Term{rt}, nil) {
			continue
		}
		v, _ := b.val(rt)
		rv, ok := parseBV(v)
		if !ok || rv > 0x10FFFF || (rv >= 0xD800 && rv <= 0xDFFF) {
			continue
		}
		enc := []byte(string(rune(rv)))
		if int(lo)+len(enc) > len(bs) {
			continue
		}
		copy(bs[lo:], enc)
	}
	return strconv.Quote(string(bs))
}

func (b *builder) valLit(t *Term, depth int) string {
	ctors := []string{"VNil", "VBool", "VNum", "VStr", "VArr", "VObj", "VExpRef", "VInt", "VTok", "VIntPtrs", "VIntr", "VGo"}
	var ts []*Term
	for _, c := range ctors {
		ts = append(ts, VIs(c, t))
	}
	if !b.pb.ask(ts, []*Term{Or(VIs("VNil", t), VIs("VNum", t), VIs("VStr", t), VIs("VBool", t), VIs("VArr", t))}) {
		b.ok = false
		return "nil"
	}
	which := ""
	for i, c := range ctors {
		if v, _ := b.val(ts[i]); v == "true" {
			which = c
		}
	}
	switch which {
	case "VNil":
		return "nil"
	case "VBool":
		v, _ := b.boolOf(VBoolOf(t))
		return fmt.Sprint(v)
	case "VNum":
		return b.goLit(VNumOf(t), types.Typ[types.Float64], depth+1)
	case "VStr":
		return b.strLit(VStrOf(t))
	case "VArr":
		ln := VLenOf(t)
		n, ok := b.intOf(ln, Le(ln, IntLit(int64(b.maxLen))))
		if !ok || n > 64 {
			b.ok = false
			b.notes = append(b.notes, "array length not replayable")
			return "nil"
		}
		isnil, _ := b.boolOf(VArrNil(t))
		if isnil && n == 0 {
			return "[]interface{}(nil)"
		}
		var els []string
		for i := int64(0); i < n; i++ {
			els = append(els, b.valLit(Select(VArrOf(t), IntLit(i)), depth+1))
		}
		return "[]interface{}{" + strings.Join(els, ", ") + "}"
	case "VObj":
		isnil, _ := b.boolOf(VObjNil(t))
		if isnil {
			return "map[string]interface{}(nil)"
		}
		return b.objLit(t, depth)
	case "VInt":
		n, _ := b.intOf(VIntOf(t), smallCap(VIntOf(t), 8))
		return fmt.Sprintf("int(%d)", n)
	case "VTok":
		n, _ := b.intOf(VTokOf(t))
		return fmt.Sprintf("tokType(%d)", n)
	case "VExpRef":
		return "expRef{ref: " + b.nodeLit(VRefOf(t), depth+1) + "}"
	case "VIntPtrs":
		var els []string
		for i := int64(0); i < 3; i++ {
			pt := b.w.pintSort()
			slot := App(fmt.Sprintf("vp%d", i), pt, t)
			isnil, _ := b.boolOf(App("(_ is pnil)", SBool, slot))
			if isnil {
				els = append(els, "nil")
				continue
			}
			vt := App("pval", SInt, slot)
			n, _ := b.intOf(vt, smallCap(vt, 8))
			els = append(els, fmt.Sprintf("govcIntPtr(%d)", n))
		}
		return "[]*int{" + strings.Join(els, ", ") + "}"
	case "VIntr":
		return "newInterpreter()"
	}
	b.ok = false
	b.notes = append(b.notes, "value constructor "+which+" not replayable")
	return "nil"
}

// objLit rebuilds an object from the key terms that the obligation mentions.
func (b *builder) objLit(t *Term, depth int) string {
	// candidate keys: string-sorted terms used to index this object's domain
	var keys []*Term
	seen := map[int]bool{}
	collectSyms(b.pb.asserts, func(x *Term) {
		if x.Head == "select" && len(x.Args) == 2 && x.Args[1].S == SStr && !x.Args[1].open {
			if !seen[x.Args[1].id] {
				seen[x.Args[1].id] = true
				keys = append(keys, x.Args[1])
			}
		}
	})
	var ents []string
	usedKeys := map[string]bool{}
	for _, k := range keys {
		in, ok := b.boolOf(Select(VDomOf(t), k))
		if !ok || !in {
			continue
		}
		ks := b.strLit(k)
		if usedKeys[ks] {
			continue
		}
		usedKeys[ks] = true
		ents = append(ents, ks+": "+b.valLit(Select(VMapOf(t), k), depth+1))
	}
	size, _ := b.intOf(VSizeOf(t), Le(VSizeOf(t), IntLit(3)))
	for i := len(ents); int64(i) < size && i < 8; i++ {
		ents = append(ents, fmt.Sprintf("%q: nil", fmt.Sprintf("govc_pad_%d", i)))
	}
	return "map[string]interface{}{" + strings.Join(ents, ", ") + "}"
}

func (b *builder) nodeLit(t *Term, depth int) string {
	if depth > 5 {
		b.ok = false
		return "ASTNode{}"
	}
	nt, ok := b.intOf(NType(t))
	if !ok {
		b.ok = false
		return "ASTNode{}"
	}
	nk, ok := b.intOf(NNKids(t), Le(NNKids(t), IntLit(3)))
	if !ok || nk > 8 {
		b.ok = false
		b.notes = append(b.notes, "node with too many children")
		return "ASTNode{}"
	}
	val := b.valLit(NVal(t), depth+1)
	var kids []string
	for i := int64(0); i < nk; i++ {
		kids = append(kids, b.nodeLit(Select(NKids(t), IntLit(i)), depth+1))
	}
	s := fmt.Sprintf("ASTNode{nodeType: astNodeType(%d), value: %s", nt, val)
	if nk > 0 {
		s += ", children: []ASTNode{" + strings.Join(kids, ", ") + "}"
	}
	return s + "}"
}
