package main

// Instruction semantics.

import (
	"fmt"
	"go/token"
	"go/types"
	"strings"

	"golang.org/x/tools/go/ssa"
)

func (fr *Frame) execInstr(in ssa.Instruction) {
	ex := fr.ex
	w := ex.p.w
	switch in := in.(type) {
	case *ssa.Alloc:
		et := in.Type().(*types.Pointer).Elem()
		c := ex.newCell(in.Comment+"@"+in.Name(), et, w.SortOf(et), in)
		ex.st.cells[c] = ex.zero(et)
		fr.vals[in] = &GVal{Ptr: &Ptr{Cell: c}, Typ: in.Type(), Fresh: TTrue}
	case *ssa.FieldAddr:
		base := fr.val(in.X)
		st := in.X.Type().Underlying().(*types.Pointer).Elem().Underlying().(*types.Struct)
		fname := st.Field(in.Field).Name()
		p := fr.asPtr(base, in.X.Type(), in.Pos())
		fr.vals[in] = &GVal{Ptr: p.extend(PathElem{Field: fname}), Typ: in.Type(), Fresh: base.Fresh}
	case *ssa.Field:
		base := fr.term(fr.val(in.X))
		st := in.X.Type().Underlying().(*types.Struct)
		fname := st.Field(in.Field).Name()
		var t *Term
		if base.S == SNode {
			t = nodeField(w, base, fname)
		} else {
			t = w.Field(base, fname)
		}
		ex.addFact(ex.typeFacts(t, in.Type()))
		fr.vals[in] = &GVal{T: t, Typ: in.Type()}
	case *ssa.IndexAddr:
		fr.indexAddr(in)
	case *ssa.Index:
		base := fr.term(fr.val(in.X))
		idx := fr.term(fr.val(in.Index))
		switch u := in.X.Type().Underlying().(type) {
		case *types.Array:
			fr.oblige("safe", "index-in-range", safetyProps, And(Le(IntLit(0), idx), Lt(idx, IntLit(u.Len()))), in.Pos())
			fr.vals[in] = &GVal{T: Select(base, idx), Typ: in.Type()}
		case *types.Basic: // string index
			fr.oblige("safe", "string-index-in-range", safetyProps, And(Le(IntLit(0), idx), Lt(idx, App("gs.len", SInt, base))), in.Pos())
			fr.vals[in] = &GVal{T: App("gs.at", SBV8, base, idx), Typ: in.Type()}
		default:
			ex.unsupp("Index on %s", in.X.Type())
		}
	case *ssa.UnOp:
		fr.unop(in)
	case *ssa.BinOp:
		fr.vals[in] = fr.binop(in)
	case *ssa.Store:
		addr := fr.val(in.Addr)
		v := fr.val(in.Val)
		p := fr.asPtr(addr, in.Addr.Type(), in.Pos())
		fr.checkStoreFrame(addr, p, in.Pos())
		if p.Cell != nil && len(p.Path) == 1 && p.Path[0].Field != "" {
			if p.Cell.fieldFresh == nil {
				p.Cell.fieldFresh = map[string]*Term{}
			}
			f := v.Fresh
			if f == nil {
				f = TFalse
			}
			p.Cell.fieldFresh[p.Path[0].Field] = f
			if p.Cell.fieldReg == nil {
				p.Cell.fieldReg = map[string]*GVal{}
			}
			if v.Reg != nil {
				p.Cell.fieldReg[p.Path[0].Field] = v
			} else {
				delete(p.Cell.fieldReg, p.Path[0].Field)
			}
		}
		fr.store(p, fr.term(v), in.Pos())
	case *ssa.Slice:
		fr.sliceOp(in)
	case *ssa.MakeSlice:
		ln := fr.term(fr.val(in.Len))
		cp := fr.term(fr.val(in.Cap))
		fr.oblige("safe", "makeslice-len", safetyProps, And(Le(IntLit(0), ln), Le(ln, cp)), in.Pos())
		et := in.Type().Underlying().(*types.Slice).Elem()
		es := w.SortOf(et)
		c := ex.newCell("make@"+in.Name(), types.NewArray(et, 0), SArray(SInt, es), in)
		ex.st.cells[c] = ConstArray(SArray(SInt, es), ex.zero(et))
		fr.vals[in] = &GVal{Reg: c, Off: IntLit(0), Len: ln, Typ: in.Type(), Fresh: TTrue}
	case *ssa.MakeMap:
		mi := w.MapInfoOfSort(w.SortOf(in.Type()))
		et := in.Type().Underlying().(*types.Map).Elem()
		t := w.MkMap(mi, ConstArray(SArray(mi.K, SBool), TFalse), ConstArray(SArray(mi.K, mi.V), ex.zero(et)), IntLit(0), TFalse)
		c := ex.newCell("map@"+in.Name(), in.Type(), mi.S, in)
		ex.st.cells[c] = t
		fr.vals[in] = &GVal{Ptr: nil, T: nil, Reg: nil, Typ: in.Type(), Fresh: TTrue, Origin: &Ptr{Cell: c}}
	case *ssa.MapUpdate:
		fr.mapUpdate(in)
	case *ssa.Lookup:
		fr.lookup(in)
	case *ssa.MakeInterface:
		fr.vals[in] = fr.makeInterface(in)
	case *ssa.TypeAssert:
		fr.vals[in] = fr.typeAssert(in)
	case *ssa.Extract:
		tup := fr.val(in.Tuple)
		if tup.Tuple == nil || in.Index >= len(tup.Tuple) {
			ex.unsupp("extract from non-tuple")
			fr.vals[in] = &GVal{T: ex.p.FreshConst("ext", w.SortOf(in.Type())), Typ: in.Type()}
		} else {
			fr.vals[in] = tup.Tuple[in.Index]
		}
	case *ssa.ChangeType:
		v := *fr.val(in.X)
		v.Typ = in.Type()
		fr.vals[in] = &v
	case *ssa.ChangeInterface:
		v := *fr.val(in.X)
		if v.T != nil && v.T.S == SErr && w.SortOf(in.Type()) == SVal {
			// an error value viewed as interface{} (only ever formatted): an opaque Go value, nil stays nil
			ex.p.DeclareFun("goOfErr", []*Sort{SErr}, SInt)
			t := Ite(App("(_ is ErrNil)", SBool, v.T), VNil, App("VGo", SVal, IntLit(25), App("goOfErr", SInt, v.T)))
			fr.vals[in] = &GVal{T: t, Typ: in.Type()}
			break
		}
		v.Typ = in.Type()
		fr.vals[in] = &v
	case *ssa.Convert:
		fr.vals[in] = fr.convert(in)
	case *ssa.Call:
		fr.vals[in] = fr.call(in)
	case *ssa.Range:
		x := fr.val(in.X)
		c := ex.newCell("iter@"+in.Name(), types.Typ[types.Int], SInt, in)
		ex.st.cells[c] = IntLit(0)
		fr.vals[in] = &GVal{Iter: c, IterOf: x, Typ: in.Type()}
	case *ssa.Next:
		fr.vals[in] = fr.next(in)
	case *ssa.RunDefers:
	case *ssa.MakeClosure, *ssa.Go, *ssa.Defer, *ssa.Select, *ssa.Send, *ssa.MakeChan, *ssa.SliceToArrayPointer:
		ex.unsupp("instruction outside subset: %T", in)
	default:
		ex.unsupp("unhandled instruction %T", in)
	}
}

var safetyProps = []string{"C05"}

// asPtr resolves a pointer-typed GVal to a Ptr.
func (fr *Frame) asPtr(v *GVal, t types.Type, pos token.Pos) *Ptr {
	if v.Ptr != nil {
		return v.Ptr
	}
	// a reference term to a heap object
	pt, _ := t.Underlying().(*types.Pointer)
	if pt != nil {
		if n, ok := pt.Elem().(*types.Named); ok {
			if _, ok := n.Underlying().(*types.Struct); ok && v.T != nil && v.T.S == SInt {
				fr.oblige("safe", "nil-deref("+n.Obj().Name()+")", safetyProps, Not(Eq(v.T, IntLit(0))), pos)
				fr.ex.p.w.SortOf(n)
				return &Ptr{Ref: v.T, RefTy: n.Obj().Name()}
			}
		}
		if v.T != nil && v.T.S.S == "PInt" {
			// *int value: read-only optional
			fr.oblige("safe", "nil-deref(*int)", safetyProps, Not(App("(_ is pnil)", SBool, v.T)), pos)
			return &Ptr{Base: &GVal{T: App("pval", SInt, v.T), Typ: pt.Elem()}}
		}
	}
	fr.ex.unsupp("cannot resolve pointer of type %s", t)
	return &Ptr{Base: &GVal{T: fr.ex.p.FreshConst("deref", fr.ex.p.w.SortOf(t)), Typ: t}}
}

func (fr *Frame) indexAddr(in *ssa.IndexAddr) {
	ex := fr.ex
	w := ex.p.w
	x := fr.val(in.X)
	idxV := fr.val(in.Index)
	idx := fr.term(idxV)
	switch u := in.X.Type().Underlying().(type) {
	case *types.Pointer: // pointer to array
		arr := u.Elem().Underlying().(*types.Array)
		p := fr.asPtr(x, in.X.Type(), in.Pos())
		if idx.S.IsBV() {
			// small constant array indexed by a bit-vector
			fr.oblige("safe", "index-in-range", safetyProps, App("bvult", SBool, idx, BVLit(uint64(arr.Len()), idx.S.BVWidth())), in.Pos())
			fr.vals[in] = &GVal{Ptr: p.extend(PathElem{Index: bvToSmallInt(idx, arr.Len())}), Typ: in.Type(), Fresh: x.Fresh}
			return
		}
		fr.oblige("safe", "index-in-range", safetyProps, And(Le(IntLit(0), idx), Lt(idx, IntLit(arr.Len()))), in.Pos())
		fr.vals[in] = &GVal{Ptr: p.extend(PathElem{Index: idx}), Typ: in.Type(), Fresh: x.Fresh}
	case *types.Slice:
		ln := fr.sliceLen(x)
		fr.oblige("safe", "index-in-range", safetyProps, And(Le(IntLit(0), idx), Lt(idx, ln)), in.Pos())
		switch {
		case x.Reg != nil:
			fr.vals[in] = &GVal{Ptr: &Ptr{Cell: x.Reg, Path: []PathElem{{Index: addOff(x.Off, idx)}}}, Typ: in.Type(), Fresh: x.Fresh}
		case x.Origin != nil:
			fr.vals[in] = &GVal{Ptr: x.Origin.extend(PathElem{Elem: addOff(x.Off, idx)}), Typ: in.Type(), Fresh: x.Fresh}
		default:
			base := x
			if x.Len != nil {
				base = &GVal{T: x.T, Typ: x.Typ}
			}
			fr.vals[in] = &GVal{Ptr: &Ptr{Base: base, Path: []PathElem{{Elem: addOff(x.Off, idx)}}}, Typ: in.Type(), Fresh: x.Fresh}
		}
		_ = u
	default:
		ex.unsupp("IndexAddr on %s", in.X.Type())
		fr.vals[in] = &GVal{Ptr: &Ptr{Base: &GVal{T: ex.p.FreshConst("ia", w.SortOf(in.Type().(*types.Pointer).Elem()))}}, Typ: in.Type()}
	}
}

func bvToSmallInt(idx *Term, n int64) *Term {
	// ite chain mapping bv index to Int for small arrays
	var t *Term = IntLit(n - 1)
	for k := n - 2; k >= 0; k-- {
		t = Ite(Eq(idx, BVLit(uint64(k), idx.S.BVWidth())), IntLit(k), t)
	}
	return t
}

func addOff(off, idx *Term) *Term {
	if off == nil || isZeroLit(off) {
		return idx
	}
	return Add(off, idx)
}

func (fr *Frame) sliceLen(x *GVal) *Term {
	if x.Len != nil {
		return x.Len
	}
	if x.Origin != nil && x.T == nil {
		return fr.ex.p.w.SlLen(fr.load(x.Origin))
	}
	return fr.ex.p.w.SlLen(fr.term(x))
}

func (fr *Frame) unop(in *ssa.UnOp) {
	ex := fr.ex
	w := ex.p.w
	x := fr.val(in.X)
	switch in.Op {
	case token.MUL: // load
		p := fr.asPtr(x, in.X.Type(), in.Pos())
		t := fr.load(p)
		g := &GVal{T: t, Typ: in.Type()}
		switch in.Type().Underlying().(type) {
		case *types.Slice, *types.Map:
			if p.Cell != nil || p.Ref != nil {
				g.Origin = p
			}
		}
		// typing facts for values read from memory (every Go value inhabits its type)
		ex.addFact(ex.typeFacts(t, in.Type()))
		fr.vals[in] = g
	case token.NOT:
		fr.vals[in] = &GVal{T: Not(fr.term(x)), Typ: in.Type()}
	case token.SUB:
		t := fr.term(x)
		switch {
		case t.S == SInt:
			r := mk("-", SInt, t)
			fr.oblige("safe", "no-overflow(neg)", safetyProps, Le(r, maxInt), in.Pos())
			fr.vals[in] = &GVal{T: r, Typ: in.Type()}
		case t.S.IsBV():
			fr.vals[in] = &GVal{T: App("bvneg", t.S, t), Typ: in.Type()}
		case t.S == SF64:
			fr.vals[in] = &GVal{T: App("fp.neg", SF64, t), Typ: in.Type()}
		default:
			ex.unsupp("negation of %s", t.S.S)
		}
	case token.XOR:
		t := fr.term(x)
		if t.S.IsBV() {
			fr.vals[in] = &GVal{T: App("bvnot", t.S, t), Typ: in.Type()}
		} else {
			ex.unsupp("bitwise not on Int")
			fr.vals[in] = &GVal{T: ex.p.FreshConst("xor", w.SortOf(in.Type())), Typ: in.Type()}
		}
	default:
		ex.unsupp("unop %s", in.Op)
		fr.vals[in] = &GVal{T: ex.p.FreshConst("unop", w.SortOf(in.Type())), Typ: in.Type()}
	}
}

func isSigned(t types.Type) bool {
	if b, ok := t.Underlying().(*types.Basic); ok {
		return b.Info()&types.IsUnsigned == 0
	}
	return true
}

func (fr *Frame) binop(in *ssa.BinOp) *GVal {
	ex := fr.ex
	w := ex.p.w
	xv, yv := fr.val(in.X), fr.val(in.Y)
	res := func(t *Term) *GVal { return &GVal{T: t, Typ: in.Type()} }
	// nil comparisons for slices / maps / pointers
	if in.Op == token.EQL || in.Op == token.NEQ {
		if t := fr.nilCompare(in, xv, yv); t != nil {
			if in.Op == token.NEQ {
				t = Not(t)
			}
			return res(t)
		}
	}
	x, y := fr.term(xv), fr.term(yv)
	s := x.S
	switch {
	case s == SInt && y.S == SInt:
		switch in.Op {
		case token.ADD, token.SUB, token.MUL:
			op := map[token.Token]string{token.ADD: "+", token.SUB: "-", token.MUL: "*"}[in.Op]
			r := mk(op, SInt, x, y)
			if isIntLike(in.Type()) {
				fr.oblige("safe", "no-overflow("+op+")", safetyProps, And(Le(minInt, r), Le(r, maxInt)), in.Pos())
			}
			return res(r)
		case token.QUO:
			fr.oblige("safe", "div-by-zero", safetyProps, Not(Eq(y, IntLit(0))), in.Pos())
			return res(App("go.div", SInt, x, y))
		case token.REM:
			fr.oblige("safe", "div-by-zero", safetyProps, Not(Eq(y, IntLit(0))), in.Pos())
			return res(App("go.rem", SInt, x, y))
		case token.LSS:
			return res(Lt(x, y))
		case token.LEQ:
			return res(Le(x, y))
		case token.GTR:
			return res(Gt(x, y))
		case token.GEQ:
			return res(Ge(x, y))
		case token.EQL:
			return res(Eq(x, y))
		case token.NEQ:
			return res(Not(Eq(x, y)))
		}
	case s.IsBV():
		signed := isSigned(in.X.Type())
		if y.S != s && (in.Op == token.SHL || in.Op == token.SHR) {
			y = bvResize(y, s.BVWidth(), false)
		}
		bop := func(op string) *GVal { return res(App(op, s, x, y)) }
		cmp := func(sop, uop string) *GVal {
			if signed {
				return res(App(sop, SBool, x, y))
			}
			return res(App(uop, SBool, x, y))
		}
		switch in.Op {
		case token.ADD:
			return bop("bvadd")
		case token.SUB:
			return bop("bvsub")
		case token.MUL:
			return bop("bvmul")
		case token.AND:
			return bop("bvand")
		case token.OR:
			return bop("bvor")
		case token.XOR:
			return bop("bvxor")
		case token.AND_NOT:
			return res(App("bvand", s, x, App("bvnot", s, y)))
		case token.SHL:
			return bop("bvshl")
		case token.SHR:
			if signed {
				return bop("bvashr")
			}
			return bop("bvlshr")
		case token.QUO:
			fr.oblige("safe", "div-by-zero", safetyProps, Not(Eq(y, BVLit(0, s.BVWidth()))), in.Pos())
			if signed {
				return bop("bvsdiv")
			}
			return bop("bvudiv")
		case token.REM:
			fr.oblige("safe", "div-by-zero", safetyProps, Not(Eq(y, BVLit(0, s.BVWidth()))), in.Pos())
			if signed {
				return bop("bvsrem")
			}
			return bop("bvurem")
		case token.LSS:
			return cmp("bvslt", "bvult")
		case token.LEQ:
			return cmp("bvsle", "bvule")
		case token.GTR:
			return cmp("bvsgt", "bvugt")
		case token.GEQ:
			return cmp("bvsge", "bvuge")
		case token.EQL:
			return res(Eq(x, y))
		case token.NEQ:
			return res(Not(Eq(x, y)))
		}
	case s == SF64:
		switch in.Op {
		case token.ADD:
			return res(App("fp.add", SF64, mk("RNE", mkSort("RoundingMode")), x, y))
		case token.SUB:
			return res(App("fp.sub", SF64, mk("RNE", mkSort("RoundingMode")), x, y))
		case token.MUL:
			return res(App("fp.mul", SF64, mk("RNE", mkSort("RoundingMode")), x, y))
		case token.QUO:
			dv := App("f64.div", SF64, x, y)
			// f64.div is uninterpreted (see DESIGN 2.6); one IEEE fact is given: dividing a finite
			// number by a divisor >= 1 cannot leave the finite range (|x/y| <= |x|, rounding is monotone).
			ex.p.assumptions["arith: x / y is finite when x is finite and y >= 1.0 (IEEE-754 division)"] = true
			one := mk("((_ to_fp 11 53) RNE 1.0)", SF64)
			fin := func(t *Term) *Term {
				return And(Not(App("fp.isNaN", SBool, t)), Not(App("fp.isInfinite", SBool, t)))
			}
			ex.addFact(Implies(And(fin(x), App("fp.geq", SBool, y, one)), fin(dv)))
			return res(dv)
		case token.LSS:
			return res(App("f64.lt", SBool, x, y))
		case token.LEQ:
			return res(App("f64.leq", SBool, x, y))
		case token.GTR:
			return res(App("f64.lt", SBool, y, x)) // a > b is b < a (IEEE: both false on NaN)
		case token.GEQ:
			return res(App("f64.leq", SBool, y, x)) // a >= b is b <= a
		case token.EQL:
			return res(App("fp.eq", SBool, x, y))
		case token.NEQ:
			return res(Not(App("fp.eq", SBool, x, y)))
		}
	case s == SStr:
		switch in.Op {
		case token.ADD:
			r := App("gs.cat", SStr, x, y)
			ex.addFact(Eq(App("gs.len", SInt, r), Add(App("gs.len", SInt, x), App("gs.len", SInt, y))))
			return res(r)
		case token.EQL:
			return res(Eq(x, y))
		case token.NEQ:
			return res(Not(Eq(x, y)))
		case token.LSS:
			return res(App("gs.lt", SBool, x, y))
		case token.GTR:
			return res(App("gs.lt", SBool, y, x))
		case token.LEQ:
			return res(Not(App("gs.lt", SBool, y, x)))
		case token.GEQ:
			return res(Not(App("gs.lt", SBool, x, y)))
		}
	case s == SBool:
		switch in.Op {
		case token.EQL:
			return res(Eq(x, y))
		case token.NEQ:
			return res(Not(Eq(x, y)))
		case token.AND:
			return res(And(x, y))
		case token.OR:
			return res(Or(x, y))
		}
	case s == SVal:
		if in.Op == token.EQL || in.Op == token.NEQ {
			// interface comparison panics when both dynamic types are identical and uncomparable
			fr.oblige("safe", "comparable-interface-operands", safetyProps, App("valComparable", SBool, x, y), in.Pos())
			t := App("valEq", SBool, x, y)
			if in.Op == token.NEQ {
				t = Not(t)
			}
			return res(t)
		}
	case s == SErr:
		if in.Op == token.EQL || in.Op == token.NEQ {
			t := Eq(x, y)
			if in.Op == token.NEQ {
				t = Not(t)
			}
			return res(t)
		}
	}
	if in.Op == token.EQL || in.Op == token.NEQ {
		if x.S == y.S {
			t := Eq(x, y)
			if in.Op == token.NEQ {
				t = Not(t)
			}
			return res(t)
		}
	}
	ex.unsupp("binop %s on %s,%s", in.Op, x.S.S, y.S.S)
	return res(ex.p.FreshConst("binop", w.SortOf(in.Type())))
}

func isIntLike(t types.Type) bool {
	b, ok := t.Underlying().(*types.Basic)
	return ok && (b.Kind() == types.Int || b.Kind() == types.Int64)
}

func bvResize(t *Term, w int, signed bool) *Term {
	cw := t.S.BVWidth()
	if cw == w {
		return t
	}
	if cw < w {
		op := "zero_extend"
		if signed {
			op = "sign_extend"
		}
		return App(fmt.Sprintf("(_ %s %d)", op, w-cw), SBV(w), t)
	}
	return App(fmt.Sprintf("(_ extract %d 0)", w-1), SBV(w), t)
}

func (fr *Frame) nilCompare(in *ssa.BinOp, xv, yv *GVal) *Term {
	w := fr.ex.p.w
	isNilConst := func(v ssa.Value) bool {
		c, ok := v.(*ssa.Const)
		return ok && c.Value == nil
	}
	var other *GVal
	var ot types.Type
	if isNilConst(in.Y) {
		other, ot = xv, in.X.Type()
	} else if isNilConst(in.X) {
		other, ot = yv, in.Y.Type()
	} else {
		return nil
	}
	switch u := ot.Underlying().(type) {
	case *types.Slice:
		if other.Reg != nil || other.Len != nil && other.T == nil {
			return other.viewNil()
		}
		return w.SlNil(fr.term(other))
	case *types.Map:
		return w.MpNil(fr.mapTerm(other))
	case *types.Pointer:
		if other.Ptr != nil && other.T == nil {
			if other.Ptr.Cell != nil || other.Ptr.Global != nil {
				return TFalse
			}
		}
		t := fr.term(other)
		if t.S.S == "PInt" {
			return App("(_ is pnil)", SBool, t)
		}
		return Eq(t, IntLit(0))
	case *types.Interface:
		t := fr.term(other)
		if t.S == SErr {
			return App("(_ is ErrNil)", SBool, t)
		}
		return VIs("VNil", t)
	case *types.Signature:
		return Eq(fr.term(other), IntLit(0))
	default:
		_ = u
	}
	return nil
}

func (fr *Frame) mapTerm(v *GVal) *Term {
	if v.T == nil && v.Origin != nil {
		return fr.load(v.Origin)
	}
	return fr.term(v)
}

func (fr *Frame) checkStoreFrame(addr *GVal, p *Ptr, pos token.Pos) {
	// element writes into slices: the container must be fresh unless listed in assigns (handled in store for heap paths)
	if p.Cell != nil || p.Global != nil {
		return
	}
}

func (fr *Frame) sliceOp(in *ssa.Slice) {
	ex := fr.ex
	w := ex.p.w
	x := fr.val(in.X)
	var lo, hi, mx *Term
	if in.Low != nil {
		lo = fr.term(fr.val(in.Low))
	}
	if in.High != nil {
		hi = fr.term(fr.val(in.High))
	}
	if in.Max != nil {
		mx = fr.term(fr.val(in.Max))
	}
	// bounds of an unsigned small integer type (e.g. the uint8 offsets stringer generates) are numbers
	asInt := func(t *Term) *Term {
		if t != nil && t.S.IsBV() {
			return App("bv2nat", SInt, t)
		}
		return t
	}
	lo, hi, mx = asInt(lo), asInt(hi), asInt(mx)
	switch u := in.X.Type().Underlying().(type) {
	case *types.Pointer: // *[N]T
		arr := u.Elem().Underlying().(*types.Array)
		p := fr.asPtr(x, in.X.Type(), in.Pos())
		if p.Cell == nil || len(p.Path) != 0 {
			ex.unsupp("slice of non-local array")
			return
		}
		if lo == nil {
			lo = IntLit(0)
		}
		if hi == nil {
			hi = IntLit(arr.Len())
		}
		fr.oblige("safe", "slice-bounds", safetyProps, And(Le(IntLit(0), lo), Le(lo, hi), Le(hi, IntLit(arr.Len()))), in.Pos())
		fr.vals[in] = &GVal{Reg: p.Cell, Off: lo, Len: subT(hi, lo), Typ: in.Type(), Fresh: TTrue}
	case *types.Slice:
		ln := fr.sliceLen(x)
		if lo == nil {
			lo = IntLit(0)
		}
		if hi == nil {
			hi = ln
		}
		// capacity is not modelled: bounds are checked against len (stronger than Go's cap check => conservative)
		conds := []*Term{Le(IntLit(0), lo), Le(lo, hi), Le(hi, ln)}
		if mx != nil {
			conds = append(conds, Le(hi, mx), Le(mx, ln))
		}
		fr.oblige("safe", "slice-bounds", safetyProps, And(conds...), in.Pos())
		g := &GVal{Reg: x.Reg, Off: addOff(x.Off, lo), Len: subT(hi, lo), Typ: in.Type(), Fresh: x.Fresh, Origin: x.Origin, NilT: x.NilT}
		if x.Reg == nil {
			if x.Len != nil {
				g.T = x.T
			} else {
				g.T = fr.term(x)
			}
		}
		if g.Off == nil {
			g.Off = IntLit(0)
		}
		fr.vals[in] = g
	case *types.Basic: // string
		s := fr.term(x)
		sl := App("gs.len", SInt, s)
		if lo == nil {
			lo = IntLit(0)
		}
		if hi == nil {
			hi = sl
		}
		fr.oblige("safe", "string-slice-bounds", safetyProps, And(Le(IntLit(0), lo), Le(lo, hi), Le(hi, sl)), in.Pos())
		r := App("gs.sub", SStr, s, lo, hi)
		ex.addFact(Implies(fr.cur, Eq(App("gs.len", SInt, r), subT(hi, lo))))
		fr.vals[in] = &GVal{T: r, Typ: in.Type()}
	default:
		ex.unsupp("Slice on %s", in.X.Type())
		fr.vals[in] = &GVal{T: ex.p.FreshConst("slice", w.SortOf(in.Type())), Typ: in.Type()}
	}
}

func subT(a, b *Term) *Term {
	if isZeroLit(b) {
		return a
	}
	return Sub(a, b)
}

func (fr *Frame) mapUpdate(in *ssa.MapUpdate) {
	ex := fr.ex
	w := ex.p.w
	m := fr.val(in.Map)
	k := fr.term(fr.val(in.Key))
	v := fr.term(fr.val(in.Value))
	if m.Origin == nil || m.Origin.Cell == nil {
		// update of a map that was not created in this call
		fr.oblige("frame", "mapupdate-into-preexisting", []string{"C06", "C12", "C13"}, TFalse, in.Pos())
		ex.unsupp("map update on non-local map")
		return
	}
	cur := fr.load(m.Origin)
	fr.oblige("safe", "nil-map-update", safetyProps, Not(w.MpNil(cur)), in.Pos())
	nm := mapPut(w, cur, k, v)
	fr.store(m.Origin, nm, in.Pos())
}

func (fr *Frame) lookup(in *ssa.Lookup) {
	ex := fr.ex
	w := ex.p.w
	x := fr.val(in.X)
	k := fr.term(fr.val(in.Index))
	if b, ok := in.X.Type().Underlying().(*types.Basic); ok && b.Info()&types.IsString != 0 {
		s := fr.term(x)
		fr.oblige("safe", "string-index-in-range", safetyProps, And(Le(IntLit(0), k), Lt(k, App("gs.len", SInt, s))), in.Pos())
		fr.vals[in] = &GVal{T: App("gs.at", SBV8, s, k), Typ: in.Type()}
		return
	}
	m := fr.mapTerm(x)
	mt := in.X.Type().Underlying().(*types.Map)
	present := Select(w.MpDom(m), k)
	v := Ite(present, Select(w.MpVal(m), k), ex.zero(mt.Elem()))
	if in.CommaOk {
		fr.vals[in] = &GVal{Tuple: []*GVal{{T: v, Typ: mt.Elem()}, {T: present, Typ: types.Typ[types.Bool]}}, Typ: in.Type()}
	} else {
		fr.vals[in] = &GVal{T: v, Typ: in.Type()}
	}
}

func (fr *Frame) next(in *ssa.Next) *GVal {
	ex := fr.ex
	w := ex.p.w
	it := fr.val(in.Iter)
	if it.Iter == nil {
		ex.unsupp("next on unknown iterator")
		return &GVal{Typ: in.Type()}
	}
	pos := ex.st.cells[it.Iter]
	if in.IsString {
		ex.unsupp("range over string")
		return &GVal{Tuple: []*GVal{{T: ex.p.FreshConst("ok", SBool)}, {T: ex.p.FreshConst("k", SInt)}, {T: ex.p.FreshConst("r", SBV32)}}, Typ: in.Type()}
	}
	m := fr.mapTerm(it.IterOf)
	mi := w.MapInfoOfSort(m.S)
	keyAt := "keyAt_" + mi.Name
	idxOf := "idxOf_" + mi.Name
	ex.p.DeclareFun(keyAt, []*Sort{mi.S, SInt}, mi.K)
	ex.p.DeclareFun(idxOf, []*Sort{mi.S, mi.K}, SInt)
	ex.p.assumptions["map range visits each key exactly once in an unspecified order (ghost bijection keyAt/idxOf)"] = true
	ok := Lt(pos, w.MpSize(m))
	key := App(keyAt, mi.K, m, pos)
	val := Select(w.MpVal(m), key)
	ex.addFact(Implies(And(fr.cur, Le(IntLit(0), pos), ok), And(Select(w.MpDom(m), key), Eq(App(idxOf, SInt, m, key), pos))))
	ex.st.cells[it.Iter] = Add(pos, IntLit(1))
	mt := it.IterOf.Typ.Underlying().(*types.Map)
	return &GVal{Tuple: []*GVal{{T: ok, Typ: types.Typ[types.Bool]}, {T: key, Typ: mt.Key()}, {T: val, Typ: mt.Elem()}}, Typ: in.Type()}
}

func (fr *Frame) convert(in *ssa.Convert) *GVal {
	ex := fr.ex
	w := ex.p.w
	x := fr.term(fr.val(in.X))
	from, to := in.X.Type().Underlying(), in.Type().Underlying()
	ts := w.SortOf(in.Type())
	res := func(t *Term) *GVal { return &GVal{T: t, Typ: in.Type()} }
	if x.S == ts {
		if _, ok := to.(*types.Basic); ok {
			if _, ok := from.(*types.Basic); ok {
				return res(x)
			}
		}
	}
	fb, fok := from.(*types.Basic)
	tb, tok := to.(*types.Basic)
	switch {
	case fok && tok && x.S.IsBV() && ts.IsBV():
		return res(bvResize(x, ts.BVWidth(), fb.Info()&types.IsUnsigned == 0))
	case fok && tok && x.S == SInt && ts == SF64:
		cv := App("(_ to_fp 11 53)", SF64, mk("RNE", mkSort("RoundingMode")), App("to_real", mkSort("Real"), x))
		// IEEE facts about int -> float64 conversion the solvers do not derive across theories:
		// a machine integer converts to a finite number, and conversion is monotone (>= 1 stays >= 1).
		ex.p.assumptions["arith: float64(int) is finite and monotone (n >= 1 gives a value >= 1.0)"] = true
		one := mk("((_ to_fp 11 53) RNE 1.0)", SF64)
		ex.addFact(And(Not(App("fp.isNaN", SBool, cv)), Not(App("fp.isInfinite", SBool, cv)),
			Implies(Ge(x, IntLit(1)), App("fp.geq", SBool, cv, one))))
		return res(cv)
	case fok && tok && x.S.IsBV() && ts == SStr && tb.Kind() == types.String:
		// string(rune)
		r := App("gs.fromRune", SStr, bvResize(x, 32, true))
		ex.addFact(And(Le(IntLit(1), App("gs.len", SInt, r)), Le(App("gs.len", SInt, r), IntLit(4))))
		return res(r)
	case fok && fb.Kind() == types.String:
		if sl, ok := to.(*types.Slice); ok {
			es := w.SortOf(sl.Elem())
			fn := "gs.to_" + sortIdent(es)
			si := w.sliceSort(es)
			ex.p.DeclareFun(fn, []*Sort{SStr}, si.S)
			r := App(fn, si.S, x)
			ex.addFact(And(Le(IntLit(0), w.SlLen(r)), Le(w.SlLen(r), App("gs.len", SInt, x)), Not(w.SlNil(r))))
			if es == SBV8 {
				ex.addFact(Eq(w.SlLen(r), App("gs.len", SInt, x)))
			}
			if es == SBV32 {
				// every element of []rune(s) is a Unicode scalar value (invalid bytes decode to U+FFFD)
				q := mkBoundVar("q!r", SInt)
				ex.addFact(mkQuantPat([]*Term{q}, Implies(And(Le(IntLit(0), q), Lt(q, w.SlLen(r))), validRune(Select(w.SlArr(r), q))), Select(w.SlArr(r), q)))
			}
			g := res(r)
			g.Fresh = TTrue
			// the converted slice is a fresh allocation that may be written: give it a region
			c := ex.newCell("conv@"+in.Name(), types.NewArray(sl.Elem(), 0), SArray(SInt, es), in)
			ex.st.cells[c] = w.SlArr(r)
			return &GVal{Reg: c, Off: IntLit(0), Len: w.SlLen(r), Typ: in.Type(), Fresh: TTrue}
		}
	case tok && tb.Kind() == types.String:
		if sl, ok := from.(*types.Slice); ok {
			es := w.SortOf(sl.Elem())
			fn := "gs.from_" + sortIdent(es)
			si := w.sliceSort(es)
			ex.p.DeclareFun(fn, []*Sort{si.S}, SStr)
			r := App(fn, SStr, x)
			ex.addFact(And(Le(IntLit(0), App("gs.len", SInt, r))))
			if es == SBV8 {
				ex.addFact(Eq(w.SlLen(x), App("gs.len", SInt, r)))
				// []byte(string(b)) has the contents of b (slices are compared by contents in this model)
				ex.p.DeclareFun("gs.to_"+sortIdent(es), []*Sort{SStr}, si.S)
				ex.addFact(Eq(App("gs.to_"+sortIdent(es), si.S, r), x))
			}
			if es == SBV32 {
				// []rune(string(x)) has the elements of x when every element is a Unicode scalar value
				// (other values are replaced by U+FFFD)
				ex.p.DeclareFun("gs.to_"+sortIdent(es), []*Sort{SStr}, si.S)
				back := App("gs.to_"+sortIdent(es), si.S, r)
				q := mkBoundVar("q!r", SInt)
				allValid := mkQuant("forall", []*Term{q}, Implies(And(Le(IntLit(0), q), Lt(q, w.SlLen(x))), validRune(Select(w.SlArr(x), q))))
				q2 := mkBoundVar("q!s", SInt)
				same := mkQuantPat([]*Term{q2}, Implies(And(Le(IntLit(0), q2), Lt(q2, w.SlLen(x))), Eq(Select(w.SlArr(back), q2), Select(w.SlArr(x), q2))), Select(w.SlArr(back), q2))
				ex.addFact(Implies(allValid, And(Eq(w.SlLen(back), w.SlLen(x)), same)))
				ex.p.assumptions["string(r) of a rune slice encodes each Unicode scalar value of r in order; []rune(s) decodes them back"] = true
			}
			return res(r)
		}
	}
	ex.unsupp("conversion %s -> %s", in.X.Type(), in.Type())
	return res(ex.p.FreshConst("conv", ts))
}

// ---- interfaces ----

func (fr *Frame) makeInterface(in *ssa.MakeInterface) *GVal {
	ex := fr.ex
	xv := fr.val(in.X)
	it := in.Type()
	isErr := ex.p.w.SortOf(it) == SErr
	if ifc, ok := it.Underlying().(*types.Interface); ok && ifc.NumMethods() > 0 && !isErr {
		// conversion to a method-bearing interface (sort.Interface, fmt.Stringer): the wrapped value stays
		// reachable through Wrapped; as a dynamic value it is opaque
		g := &GVal{T: App("VGo", SVal, IntLit(goKindStruct), ex.p.FreshConst("goid", SInt)), Typ: it, Wrapped: xv}
		if xv.Ptr != nil && xv.T == nil {
			g.Ptr = xv.Ptr
		}
		return g
	}
	t := fr.toIface(xv, in.X.Type(), isErr, in.Pos())
	g := &GVal{T: t, Typ: it}
	if xv.Ptr != nil && xv.T == nil {
		g.Ptr = xv.Ptr // remembered for stdlib functions that write through an interface-wrapped pointer
	}
	g.Wrapped = xv
	return g
}

func (fr *Frame) toIface(xv *GVal, xt types.Type, isErr bool, pos token.Pos) *Term {
	ex := fr.ex
	w := ex.p.w
	if isErr {
		if n, ok := xt.(*types.Named); ok && n.Obj().Name() == "SyntaxError" {
			x := fr.term(xv)
			return App("ErrSyntax", SErr, w.Field(x, "msg"), w.Field(x, "Expression"), w.Field(x, "Offset"))
		}
		id := ex.p.FreshConst("errid", SInt)
		return App("ErrOther", SErr, id)
	}
	if pt, ok := xt.Underlying().(*types.Pointer); ok {
		if n, ok := pt.Elem().(*types.Named); ok && n.Obj().Name() == "treeInterpreter" {
			return App("VIntr", SVal, fr.term(xv))
		}
		// other pointers: opaque Go value
		return App("VGo", SVal, IntLit(goKindPtr), fr.opaqueID(xv))
	}
	x := fr.term(xv)
	switch {
	case x.S == SF64:
		return VNum(x)
	case x.S == SStr:
		if n, ok := xt.(*types.Named); ok && n.Obj().Name() != "string" {
			return App("VGo", SVal, IntLit(goKindString), ex.p.FreshConst("goid", SInt))
		}
		return VStr(x)
	case x.S == SBool:
		return VBool(x)
	case x.S == SVal:
		return x
	case x.S == SInt:
		if n, ok := xt.(*types.Named); ok {
			switch n.Obj().Name() {
			case "tokType":
				return App("VTok", SVal, x)
			}
			return App("VGo", SVal, IntLit(goKindInt), x)
		}
		return App("VInt", SVal, x)
	}
	if si := w.SliceInfoOfSort(x.S); si != nil {
		switch si.Elem {
		case SVal:
			return VArr(w.SlArr(x), w.SlLen(x), w.SlNil(x))
		}
		if si.Elem.S == "PInt" {
			return fr.intPtrsVal(x)
		}
		return App("VGo", SVal, IntLit(goKindSlice), ex.p.FreshConst("goid", SInt))
	}
	if mi := w.MapInfoOfSort(x.S); mi != nil && mi.K == SStr && mi.V == SVal {
		return VObj(w.MpDom(x), w.MpVal(x), w.MpSize(x), w.MpNil(x))
	}
	if n, ok := xt.(*types.Named); ok && n.Obj().Name() == "expRef" {
		return App("VExpRef", SVal, w.Field(x, "ref"))
	}
	return App("VGo", SVal, IntLit(goKindStruct), ex.p.FreshConst("goid", SInt))
}

const (
	goKindInt    = 2
	goKindString = 24
	goKindSlice  = 23
	goKindStruct = 25
	goKindPtr    = 22
)

func (fr *Frame) opaqueID(v *GVal) *Term {
	if v.T != nil && v.T.S == SInt {
		return v.T
	}
	return fr.ex.p.FreshConst("goid", SInt)
}

func (fr *Frame) intPtrsVal(x *Term) *Term {
	w := fr.ex.p.w
	// []*int -> VIntPtrs(p0, p1, p2, n): the three slots a slice node carries, element by element
	arr := w.SlArr(x)
	return App("VIntPtrs", SVal, Select(arr, IntLit(0)), Select(arr, IntLit(1)), Select(arr, IntLit(2)), w.SlLen(x))
}

// typeAssert models x.(T).
func (fr *Frame) typeAssert(in *ssa.TypeAssert) *GVal {
	ex := fr.ex
	w := ex.p.w
	x := fr.term(fr.val(in.X))
	at := in.AssertedType
	ok, val, fresh := fr.assertParts(x, at)
	if ok == nil {
		ex.unsupp("type assertion to %s", at)
		ok = ex.p.FreshConst("taok", SBool)
		val = ex.p.FreshConst("taval", w.SortOf(at))
	}
	if in.CommaOk {
		ex.addFact(Implies(And(fr.cur, ok), ex.typeFacts(val, at)))
		v := Ite(ok, val, ex.zero(at))
		return &GVal{Tuple: []*GVal{{T: v, Typ: at, Fresh: fresh}, {T: ok, Typ: types.Typ[types.Bool]}}, Typ: in.Type()}
	}
	fr.oblige("safe", "type-assertion("+types.TypeString(at, func(*types.Package) string { return "" })+")", []string{"C05", "C10"}, ok, in.Pos())
	ex.addFact(Implies(fr.cur, ex.typeFacts(val, at)))
	return &GVal{T: val, Typ: at, Fresh: fresh}
}

func (fr *Frame) assertParts(x *Term, at types.Type) (ok, val, fresh *Term) {
	ex := fr.ex
	w := ex.p.w
	if x.S == SErr {
		if n, isN := at.(*types.Named); isN && n.Obj().Name() == "SyntaxError" {
			s := w.SortOf(at)
			si := w.StructInfoOfSort(s)
			args := []*Term{}
			for _, f := range si.Fields {
				switch f.Name {
				case "msg":
					args = append(args, App("emsg", SStr, x))
				case "Expression":
					args = append(args, App("eexpr", SStr, x))
				case "Offset":
					args = append(args, App("eoff", SInt, x))
				}
			}
			return App("(_ is ErrSyntax)", SBool, x), App(si.Ctor, s, args...), nil
		}
		return nil, nil, nil
	}
	if x.S != SVal {
		return nil, nil, nil
	}
	switch u := at.(type) {
	case *types.Basic:
		switch u.Kind() {
		case types.Float64:
			return VIs("VNum", x), VNumOf(x), nil
		case types.String:
			return VIs("VStr", x), VStrOf(x), nil
		case types.Bool:
			return VIs("VBool", x), VBoolOf(x), nil
		case types.Int:
			return VIs("VInt", x), VIntOf(x), nil
		}
	case *types.Slice:
		es := w.SortOf(u.Elem())
		if es == SVal {
			ex.addFact(Implies(And(fr.cur, VIs("VArr", x)), And(Le(IntLit(0), VLenOf(x)), Le(VLenOf(x), maxLen), Implies(VArrNil(x), Eq(VLenOf(x), IntLit(0))))))
			return VIs("VArr", x), w.MkSlice(SVal, VArrOf(x), VLenOf(x), VArrNil(x)), nil
		}
		if es.S == "PInt" {
			ok := VIs("VIntPtrs", x)
			pt := w.pintSort()
			n := App("vpn", SInt, x)
			arr := ConstArray(SArray(SInt, pt), mk("pnil", pt))
			arr = Store(arr, IntLit(0), App("vp0", pt, x))
			arr = Store(arr, IntLit(1), App("vp1", pt, x))
			arr = Store(arr, IntLit(2), App("vp2", pt, x))
			r := w.MkSlice(pt, arr, n, TFalse)
			ex.addFact(Implies(And(fr.cur, ok), And(Le(IntLit(0), n), Le(n, IntLit(3)))))
			ex.p.assumptions["[]*int payloads have at most 3 slots (slice nodes carry exactly 3; wfNode requires it)"] = true
			return ok, r, nil
		}
	case *types.Map:
		mi := w.MapInfoOfSort(w.SortOf(u))
		if mi != nil && mi.K == SStr && mi.V == SVal {
			ex.addFact(Implies(And(fr.cur, VIs("VObj", x)), And(Le(IntLit(0), VSizeOf(x)), Le(VSizeOf(x), maxLen), Implies(VObjNil(x), Eq(VSizeOf(x), IntLit(0))))))
			return VIs("VObj", x), w.MkMap(mi, VDomOf(x), VMapOf(x), VSizeOf(x), VObjNil(x)), nil
		}
	case *types.Named:
		switch u.Obj().Name() {
		case "expRef":
			s := w.SortOf(u)
			si := w.StructInfoOfSort(s)
			return VIs("VExpRef", x), App(si.Ctor, s, VRefOf(x)), nil
		case "tokType":
			return VIs("VTok", x), VTokOf(x), nil
		}
		if _, isI := u.Underlying().(*types.Interface); isI {
			// assertion to a non-empty interface (fmt.Stringer): abstract
			okc := ex.p.FreshConst("implements_"+u.Obj().Name(), SBool)
			return okc, x, nil
		}
	case *types.Pointer:
		if n, isN := u.Elem().(*types.Named); isN && n.Obj().Name() == "treeInterpreter" {
			return VIs("VIntr", x), App("vintr", SInt, x), nil
		}
	}
	return nil, nil, nil
}

func (fr *Frame) doPanic(in *ssa.Panic) {
	ex := fr.ex
	if ex.c != nil && len(ex.c.PanicsWhen) > 0 && fr.top {
		// the declared conditions are evaluated where the panic happens (parameters as at entry, the
		// state - including the records of calls made so far - as it is now)
		env := fr.entryEnv()
		env.st = ex.st
		env.dbgHead = in.Block()
		var conds []*Term
		props := append([]string{}, safetyProps...)
		label := "panic-only-when-declared"
		for _, cl := range ex.c.PanicsWhen {
			conds = append(conds, fr.evalBool(cl.Expr, env))
			props = unionProps(props, cl.Props)
			if cl.Label != "" {
				label = "panics-" + cl.Label
			}
		}
		fr.oblige("safe", label, props, Or(conds...), in.Pos())
		return
	}
	fr.oblige("safe", "explicit-panic-unreachable", safetyProps, TFalse, in.Pos())
}

func trimPkg(s string) string {
	return strings.ReplaceAll(s, "github.com/jmespath/go-jmespath.", "")
}

// validRune: a Unicode scalar value (0..0x10FFFF without the surrogate range)
func validRune(r *Term) *Term {
	return And(App("bvsle", SBool, BVLit(0, 32), r), App("bvsle", SBool, r, BVLit(0x10FFFF, 32)),
		Or(App("bvslt", SBool, r, BVLit(0xD800, 32)), App("bvsgt", SBool, r, BVLit(0xDFFF, 32))))
}
