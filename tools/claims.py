# property id -> claim text (kept honest: what is proved, what is assumed)
NA={}
CLAIMS={
 "C08":{"text":"Proof for all array lengths and all (start,stop,step) in int64 (present or absent): capSlice, computeSliceParams and slice() are verified against recursive spec functions transcribing CPython's slice semantics (specCapSlice/specSliceStart/Stop/Step/specWalkUp/Down/specPySlice); every index is proved in range, every integer operation proved not to overflow, both loops proved to terminate (variants), step 0 proved to be an error. Unbounded: loop invariants, no unrolling.",
        "note":"Assumes: spec functions in /repo/verif_spec.go transcribe Python slicing (they are also executed natively at replay); go/ssa + govc translation; SMT solvers; len <= 2^48. The parser side ([a:b:c] -> three optional ints) and the ASTSlice case of Execute are covered when their contracts are claimed (see evidence functions_under_contract)."},
}
