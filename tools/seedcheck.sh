#!/bin/bash
# usage: seedcheck.sh <seed-dir-with-patch.diff-and-demo> <name>
# Confirms: patch applies to /repo HEAD, suite passes with it, demo fails with it, demo passes without it.
export GOFLAGS=-mod=mod GOPROXY=off GOSUMDB=off GOTOOLCHAIN=local
src=$1; name=$2
wt=/tmp/sc/$name
rm -rf $wt; mkdir -p /tmp/sc
git -C /repo worktree add -q --detach $wt HEAD || exit 9
cd $wt
res=""
if ! git apply --3way --check $src/patch.diff 2>/dev/null; then echo "$name: PATCH-DOES-NOT-APPLY"; git -C /repo worktree remove --force $wt; exit 1; fi
git apply --3way $src/patch.diff >/dev/null 2>&1; git reset -q; git diff > /tmp/sc/$name.rebased.diff
if go build ./... 2>/dev/null && go test -vet=off -count=1 ./... >/tmp/sc/$name.suite.log 2>&1; then res="suite=pass"; else res="suite=FAIL"; fi
demo=$(ls $src/*_test.go | head -1)
demodir=.
if grep -q "^package main" $demo; then demodir=cmd/jpgo; fi
cp $demo $demodir/zz_seed_demo_test.go
if (cd $demodir && go test -vet=off -count=1 -run 'Seed|Demo' . >/tmp/sc/$name.with.log 2>&1); then res="$res demo-with-patch=PASS(bad)"; else res="$res demo-with-patch=fail(good)"; fi
git checkout -- .
if (cd $demodir && go test -vet=off -count=1 -run 'Seed|Demo' . >/tmp/sc/$name.without.log 2>&1); then res="$res demo-without=pass(good)"; else res="$res demo-without=FAIL(bad)"; fi
cd /; git -C /repo worktree remove --force $wt
echo "$name: $res"
