#!/bin/bash
# usage: seedingest.sh <seed-id> <need-to-manifest text> <props...>   (takes /tmp/seed/<seed-id>/_out)
s=$1; need=$2; shift 2
src=/tmp/seed/$s/_out
mkdir -p /verif/seeded/$s
cp $src/patch.diff $src/notes.md /verif/seeded/$s/ 2>/dev/null
cp $src/*_test.go /verif/seeded/$s/ 2>/dev/null
conf=$(/verif/tools/seedcheck.sh /verif/seeded/$s $s | tail -1)
echo "$conf"
log=/tmp/seed/$s.run.log
/verif/tools/seedrun.sh $s "$@" > $log 2>&1
grep "VIOLATION\|exit=" $log | cut -c1-260
python3 - "$s" "$need" "$conf" "$log" "$@" <<'PY'
import json,sys,re
s,need,conf,log=sys.argv[1:5]; props=sys.argv[5:]
det=[]
text=open(log).read()
for p in props:
    obls=re.findall(r'\[%s %s\] VIOLATION property=%s .*?obligation=(\S+)'%(re.escape(s),p,p), text)
    m=re.search(r'\[%s %s\] \[%s %s\] exit=(\d)'%(re.escape(s),p,re.escape(s),p), text)
    if m and m.group(1)=='1':
        det.append(p+": "+", ".join(obls[:4])+(" (+%d more)"%(len(obls)-4) if len(obls)>4 else ""))
    else:
        det.append(p+": not detected")
d={"property":s.split('-')[0],"origin":"independent sub-agent (round 2, against the repaired tree with all properties claimed) given only the property text and a scratch worktree without the verification files",
   "needs_to_manifest":need,"confirmed_by":"tools/seedcheck.sh","confirmed_result":conf.split(': ',1)[-1],"detected_by":"; ".join(det)}
json.dump(d,open('/verif/seeded/%s/meta.json'%s,'w'),indent=1)
PY
git -C /repo worktree remove --force /tmp/seed/$s 2>/dev/null; git -C /repo worktree prune
