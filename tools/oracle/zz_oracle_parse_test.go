//go:build verif

package jmespath

// Oracle validation (not a property check): specParse vs the real parser on every
// expression of the compliance suite plus extra spellings. Injected with go test -overlay.

import (
	"encoding/json"
	"fmt"
	"io/ioutil"
	"path/filepath"
	"reflect"
	"testing"
)

func oracleExprs(t *testing.T) []string {
	var out []string
	files, _ := filepath.Glob("compliance/*.json")
	for _, f := range files {
		data, _ := ioutil.ReadFile(f)
		var suites []struct {
			Cases []struct {
				Expression string `json:"expression"`
			} `json:"cases"`
		}
		if err := json.Unmarshal(data, &suites); err != nil {
			t.Fatal(err)
		}
		for _, s := range suites {
			for _, c := range s.Cases {
				out = append(out, c.Expression)
			}
		}
	}
	extra := []string{"[0", "f(a b)", "f(a,)", "f(,a)", "{a: b c: d}", "{a: b,}", "[:1 2]", "[0:1:2:]", "[::]", "[1:2:3]", "@(x)", "(a)(x)", "[&a]", "&a", "a[*][b, c]", "a[][b,c]", "a[:1][b,c]", "a[0][b]",
		"a.b(c)", "a || b(c)", "f()", "f(&a, b)", "a[?b].c", "a[?b][0]", "*.*", "a.*.b", "[*].a", "a | b | c", "a == b == c", "!a == b", "a.b.c[0].d", "{a: b, \"c\": d}", "a[]", "[][]", "a[*].b[]", "foo.[*]", "foo.[a,b]", "foo.{a: b}"}
	return append(out, extra...)
}

func nodeEq(a, b ASTNode) bool {
	if a.nodeType != b.nodeType || len(a.children) != len(b.children) || !reflect.DeepEqual(a.value, b.value) {
		return false
	}
	for i := range a.children {
		if !nodeEq(a.children[i], b.children[i]) {
			return false
		}
	}
	return true
}

func TestOracleSpecParse(t *testing.T) {
	n, agreeAccept, agreeAST, accepted := 0, 0, 0, 0
	for _, e := range oracleExprs(t) {
		n++
		toks, lerr := NewLexer().tokenize(e)
		real, perr := NewParser().Parse(e)
		if lerr != nil {
			if perr == nil {
				t.Errorf("lexer rejects but parser accepts %q", e)
			}
			agreeAccept++
			continue
		}
		spec, ok := specParse(toks)
		if ok == (perr == nil) {
			agreeAccept++
		} else {
			fmt.Printf("ORACLE acceptance differs: %q spec=%v real-err=%v\n", e, ok, perr)
		}
		if ok && perr == nil {
			accepted++
			if nodeEq(spec, real) {
				agreeAST++
			} else {
				fmt.Printf("ORACLE AST differs: %q\n spec=%v\n real=%v\n", e, spec, real)
			}
		}
	}
	fmt.Printf("ORACLE specParse: %d expressions, acceptance agrees on %d, %d accepted by both, AST identical on %d\n", n, agreeAccept, accepted, agreeAST)
}
