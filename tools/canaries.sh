#!/bin/bash
# Self-test of the machinery: every repaired defect is put back (the fix commit is reverted in the
# working tree of /repo, nothing is committed) and the check of a property it violated must fail.
# usage: tools/canaries.sh [commit property]...   (default: the list below)
cd /verif
LIST="a5bb467:C08 28a820b:C05 5ec6a45:C04 cc910a3:C11 a0f915a:C10 1df4e4d:C16 019585e:C16 ebe3087:C06 e63db7a:C04 2430315:C02 062bf26:C04 12f7733:C18 23837cf:C18 96fcf50:C18 75c679c:C18 94a2110:C16"
[ $# -gt 0 ] && LIST="$*"
if [ -n "$(git -C /repo status --porcelain)" ]; then echo "repo has uncommitted changes"; exit 2; fi
mkdir -p /tmp/canary; cp -r evidence /tmp/canary/evidence.bak
for item in $LIST; do
  c=${item%%:*}; p=${item##*:}
  if ! git -C /repo show $c -- '*.go' ':!verif_*' ':!cmd/jpgo/verif_*' | git -C /repo apply -R --3way >/dev/null 2>&1; then
    git -C /repo checkout -- . ; git -C /repo reset -q; echo "canary $c $p: REVERT-DOES-NOT-APPLY"; continue
  fi
  git -C /repo reset -q
  if (cd /repo && GOFLAGS=-mod=mod GOPROXY=off GOSUMDB=off go build ./... >/dev/null 2>&1); then
    out=$(./bin/govc check --property $p 2>&1); rc=$?
    first=$(echo "$out" | grep VIOLATION | head -1 | sed 's/.*obligation=//' | cut -c1-110)
    echo "canary $c $p: exit=$rc $first"
  else
    echo "canary $c $p: REVERTED-TREE-DOES-NOT-BUILD"
  fi
  git -C /repo checkout -- .
done
rm -rf evidence; mv /tmp/canary/evidence.bak evidence; rm -rf replays/*/ 2>/dev/null
git -C /repo status --short
