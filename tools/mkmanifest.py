#!/usr/bin/env python3
# Regenerates /verif/MANIFEST.json from the table below (kept next to the claims so they stay in sync).
import json, subprocess
props=[json.loads(l) for l in open('/verif/properties.jsonl')]
hooks=subprocess.run(['git','-C','/repo','log','--format=%H %s'],capture_output=True,text=True).stdout.strip().split('\n')
hook_commits=[l.split()[0] for l in hooks if l.split(' ',1)[1].startswith('verif:')]
CLAIMS={}
exec(open('/verif/tools/claims.py').read())
m={"version":1,
 "setup_cmd":"cd /verif/govc && GOFLAGS=-mod=vendor GOPROXY=off GOSUMDB=off GOTOOLCHAIN=local go build -o /verif/bin/govc ./cmd/govc",
 "hooks":{"guard":"verif","enable":"contracts (//@ comments) and pure Go spec functions live in /repo/verif_contracts.go, /repo/verif_spec.go and /repo/cmd/jpgo/verif_contracts.go behind //go:build verif; govc loads /repo with -tags=verif",
   "baseline_off_cmd":"cd /repo && GOFLAGS=-mod=mod GOPROXY=off GOSUMDB=off go test -vet=off -count=1 ./...",
   "source_commits":hook_commits,"add_only":True},
 "engines":[{"name":"govc","path":"/verif/govc","serves_properties":sorted(CLAIMS.keys()),
   "kind_free_text":"self-written verification-condition generator over go/ssa of /repo's working tree + //@ contracts; obligations discharged by a z3 4.8.12 / z3 5.1.0 / cvc5 1.0 portfolio; counterexamples replayed on the real code with go test -overlay"}],
 "checks":[], "not_applicable":[],
 "notes":"Technique: contract-based deductive verification of the real code (see DESIGN.md). Known findings and fixed defects: /verif/known_findings.json. Seeded defects used to test the machinery: /verif/seeded/."}
for p in props:
    id=p['id']
    if id in CLAIMS:
        c=CLAIMS[id]
        m["checks"].append({"property_id":id,
          "quick_cmd":"./bin/govc check --property %s --tier quick"%id,
          "thorough_cmd":"./bin/govc check --property %s --tier thorough"%id,
          "evidence_file":"/verif/evidence/%s.json"%id,
          "replay_cmd_template":"./bin/govc replay {path}",
          "engine":"govc",
          "level_claimed":{"category":"proof","text":c["text"],"design_ref":c.get("ref","DESIGN.md section 5 "+id)},
          "level_note":c["note"],
          "technique":c.get("technique","contract-based deductive verification: per-function requires/ensures/loop invariants on the real code, VCs generated from go/ssa, discharged by SMT (z3/cvc5)")})
    else:
        m["not_applicable"].append({"property_id":id,"reason":NA.get(id,"contract set for this property not completed yet; nothing is claimed (see DESIGN.md)")})
json.dump(m,open('/verif/MANIFEST.json','w'),indent=1)
print("claimed:",sorted(CLAIMS.keys()))
