#!/bin/bash
# usage: seedrun.sh <seed-name> <property> [property...]   — applies the seed to /repo, runs the checks, reverts.
seed=$1; shift
cd /repo || exit 2
if ! git diff --quiet; then echo "repo has uncommitted changes"; exit 2; fi
git apply /verif/seeded/$seed/patch.diff || { echo "patch does not apply"; exit 2; }
git reset -q
for p in "$@"; do
  (cd /verif && ./bin/govc check --property $p --tier quick > /tmp/seedrun.$$.log 2>&1; echo "[$seed $p] exit=$?" >> /tmp/seedrun.$$.log)
  grep -v '^globals' /tmp/seedrun.$$.log | sed "s/^/[$seed $p] /" | cut -c1-260; rm -f /tmp/seedrun.$$.log
done
git -C /repo checkout -- . ; git -C /repo status --short | grep -v '^??' 
# evidence files were rewritten against the seeded tree: restore them
cd /verif && git checkout -- evidence 2>/dev/null
