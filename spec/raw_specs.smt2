; Spec functions that need quantifiers (over object keys / array indices) are
; given directly in SMT-LIB here; each has a native Go twin of the same name in
; /repo/verif_spec.go (used at replay; loops allowed there). Header lines:
;   ;; spec <name> (<param> <sort>)* -> <sort>
; Everything up to the next header is emitted verbatim.

;; spec specFinite (f F64) -> Bool
(define-fun specFinite ((f F64)) Bool (and (not (fp.isNaN f)) (not (fp.isInfinite f))))

;; spec specJSONVal (v Val) -> Bool
; what encoding/json produces: null, booleans, finite numbers, strings, non-nil arrays and
; non-nil string-keyed objects of such values
(define-fun-rec specJSONVal ((v Val)) Bool
  (or ((_ is VNil) v) ((_ is VBool) v) ((_ is VStr) v)
      (and ((_ is VNum) v) (specFinite (vnum v)))
      (and ((_ is VArr) v) (not (varrnil v)) (<= 0 (vlen v))
           (forall ((i Int)) (! (=> (and (<= 0 i) (< i (vlen v))) (specJSONVal (select (varr v) i))) :pattern ((select (varr v) i)))))
      (and ((_ is VObj) v) (not (vobjnil v)) (<= 0 (vsize v))
           (forall ((k Str)) (! (=> (select (vdom v) k) (specJSONVal (select (vmap v) k))) :pattern ((select (vmap v) k)))))))

;; spec specDeepEq (a Val) (b Val) -> Bool
; deep JSON equality: never equal across types; numbers by IEEE ==; arrays element-wise
; (same length, same nil-ness); objects key-wise (same key set, same nil-ness)
(define-fun-rec specDeepEq ((a Val) (b Val)) Bool
  (or (and ((_ is VNil) a) ((_ is VNil) b))
      (and ((_ is VBool) a) ((_ is VBool) b) (= (vbool a) (vbool b)))
      (and ((_ is VNum) a) ((_ is VNum) b) (fp.eq (vnum a) (vnum b)))
      (and ((_ is VStr) a) ((_ is VStr) b) (= (vstr a) (vstr b)))
      (and ((_ is VArr) a) ((_ is VArr) b) (= (varrnil a) (varrnil b)) (= (vlen a) (vlen b))
           (forall ((i Int)) (! (=> (and (<= 0 i) (< i (vlen a))) (specDeepEq (select (varr a) i) (select (varr b) i))) :pattern ((select (varr a) i)))))
      (and ((_ is VObj) a) ((_ is VObj) b) (= (vobjnil a) (vobjnil b))
           (forall ((k Str)) (! (and (= (select (vdom a) k) (select (vdom b) k))
                                     (=> (select (vdom a) k) (specDeepEq (select (vmap a) k) (select (vmap b) k)))) :pattern ((select (vmap a) k)))))))

;; spec nodeRank (n Node) -> Int
; height of the (finite) AST: children rank strictly below their parent. Declared, not
; defined; the rank axiom below is an assumption (Go values of type ASTNode are finite trees).
(declare-fun nodeRank (Node) Int)
(assert (forall ((n Node)) (! (<= 0 (nodeRank n)) :pattern ((nodeRank n)))))
(assert (forall ((n Node) (i Int)) (! (=> (and (<= 0 i) (< i (nkids n))) (< (nodeRank (select (kids n) i)) (nodeRank n))) :pattern ((nodeRank (select (kids n) i))))))

;; spec wfNode (n Node) -> Bool
; shapes the parser can produce for an expression that is not an expression reference
; (payload types and child counts that Execute relies on); wfArg additionally admits &expr.
(define-funs-rec ((wfNode ((n Node)) Bool) (wfArg ((n Node)) Bool)) (
  (and ((_ is mkNode) n) (<= 0 (nkids n))
   (or (and (= (ntype n) {{ASTComparator}}) (= (nkids n) 2) ((_ is VTok) (nval n)))
       (= (ntype n) {{ASTCurrentNode}})
       (= (ntype n) {{ASTIdentity}})
       (and (= (ntype n) {{ASTFunctionExpression}}) ((_ is VStr) (nval n)))
       (and (= (ntype n) {{ASTField}}) ((_ is VStr) (nval n)))
       (and (= (ntype n) {{ASTFilterProjection}}) (= (nkids n) 3))
       (and (= (ntype n) {{ASTFlatten}}) (= (nkids n) 1))
       (and (= (ntype n) {{ASTIndex}}) ((_ is VInt) (nval n)))
       (and (= (ntype n) {{ASTIndexExpression}}) (= (nkids n) 2))
       (and (= (ntype n) {{ASTKeyValPair}}) (= (nkids n) 1) ((_ is VStr) (nval n)))
       (and (= (ntype n) {{ASTLiteral}}) (specJSONVal (nval n)))
       (and (= (ntype n) {{ASTMultiSelectHash}})
            (forall ((i Int)) (! (=> (and (<= 0 i) (< i (nkids n))) (= (ntype (select (kids n) i)) {{ASTKeyValPair}})) :pattern ((select (kids n) i)))))
       (= (ntype n) {{ASTMultiSelectList}})
       (and (= (ntype n) {{ASTOrExpression}}) (= (nkids n) 2))
       (and (= (ntype n) {{ASTAndExpression}}) (= (nkids n) 2))
       (and (= (ntype n) {{ASTNotExpression}}) (= (nkids n) 1))
       (= (ntype n) {{ASTPipe}})
       (and (= (ntype n) {{ASTProjection}}) (= (nkids n) 2))
       (and (= (ntype n) {{ASTSubexpression}}) (= (nkids n) 2))
       (and (= (ntype n) {{ASTSlice}}) ((_ is VIntPtrs) (nval n)) (= (vpn (nval n)) 3))
       (and (= (ntype n) {{ASTValueProjection}}) (= (nkids n) 2)))
   (forall ((i Int)) (! (=> (and (<= 0 i) (< i (nkids n)))
        (ite (= (ntype n) {{ASTFunctionExpression}}) (wfArg (select (kids n) i)) (wfNode (select (kids n) i)))) :pattern ((select (kids n) i)))))
  (ite (and ((_ is mkNode) n) (= (ntype n) {{ASTExpRef}})) (and (= (nkids n) 1) (wfNode (select (kids n) 0))) (wfNode n))
))

;; spec wfArg (n Node) -> Bool @in wfNode

;; spec specResultOK (n Node) (v Val) -> Bool
; what Execute may return for a well-formed node: JSON data, except that an expression
; reference node (only legal as a function argument) yields the reference to its child
(define-fun specResultOK ((n Node) (v Val)) Bool
  (ite (= (ntype n) {{ASTExpRef}}) (and ((_ is VExpRef) v) (= (vref v) (select (kids n) 0))) (specJSONVal v)))

;; spec specArgOK (v Val) -> Bool
; a resolved function argument: JSON data or a reference to a well-formed expression
(define-fun specArgOK ((v Val)) Bool (ite ((_ is VExpRef) v) (wfNode (vref v)) (specJSONVal v)))

;; spec specTypeMatch (t Str) (arg Val) -> Bool
; does a resolved argument satisfy one declared JMESPath parameter type? "any" means any JSON
; value - not an expression reference; "array" is any slice kind; array[number]/array[string]
; require every element to be of that type (the empty array satisfies both)
(define-fun specTypeMatch ((t Str) (arg Val)) Bool
  (or (and (= t {{str:number}}) ((_ is VNum) arg))
      (and (= t {{str:string}}) ((_ is VStr) arg))
      (and (= t {{str:array}}) (= (kindOf arg) 23))
      (and (= t {{str:object}}) ((_ is VObj) arg))
      (and (= t {{str:array[number]}}) ((_ is VArr) arg)
           (forall ((i Int)) (! (=> (and (<= 0 i) (< i (vlen arg))) ((_ is VNum) (select (varr arg) i))) :pattern ((select (varr arg) i)))))
      (and (= t {{str:array[string]}}) ((_ is VArr) arg)
           (forall ((i Int)) (! (=> (and (<= 0 i) (< i (vlen arg))) ((_ is VStr) (select (varr arg) i))) :pattern ((select (varr arg) i)))))
      (and (= t {{str:expref}}) ((_ is VExpRef) arg))
      (and (= t {{str:any}}) (not ((_ is VExpRef) arg)))))

;; spec pureTree (n Node) -> Bool
; an expression tree without function calls and expression references (the fragment of C01 C02 C07 C15)
(define-fun-rec pureTree ((n Node)) Bool
  (and ((_ is mkNode) n) (not (= (ntype n) {{ASTFunctionExpression}})) (not (= (ntype n) {{ASTExpRef}}))
       (forall ((i Int)) (! (=> (and (<= 0 i) (< i (nkids n))) (pureTree (select (kids n) i))) :pattern ((select (kids n) i))))))

;; spec specGoVal (v Val) -> Bool
; what a document made of Go values may contain (property C18): the JSON shapes, whose members may
; again be such values, and values of any other Go type (VGo: structs, pointers, typed slices, named
; scalars ...), which the interpreter only ever inspects through package reflect
(define-fun-rec specGoVal ((v Val)) Bool
  (or (specJSONVal v) ; in particular every literal of an expression
      ((_ is VNil) v) ((_ is VBool) v) ((_ is VStr) v) ((_ is VNum) v) ((_ is VGo) v)
      (and ((_ is VArr) v) (<= 0 (vlen v))
           (forall ((i Int)) (! (=> (and (<= 0 i) (< i (vlen v))) (specGoVal (select (varr v) i))) :pattern ((select (varr v) i)))))
      (and ((_ is VObj) v) (<= 0 (vsize v))
           (forall ((k Str)) (! (=> (select (vdom v) k) (specGoVal (select (vmap v) k))) :pattern ((select (vmap v) k)))))))

;; spec specGoResultOK (n Node) (v Val) -> Bool
(define-fun specGoResultOK ((n Node) (v Val)) Bool
  (ite (= (ntype n) {{ASTExpRef}}) (and ((_ is VExpRef) v) (= (vref v) (select (kids n) 0))) (specGoVal v)))

;; spec specGoArgOK (v Val) -> Bool
(define-fun specGoArgOK ((v Val)) Bool (ite ((_ is VExpRef) v) (wfNode (vref v)) (specGoVal v)))
