; Spec functions that need quantifiers (over object keys / array indices) are
; given directly in SMT-LIB here; each has a native Go twin of the same name in
; /repo/verif_spec.go (used at replay; loops allowed there). Header lines:
;   ;; spec <name> (<param> <sort>)* -> <sort>
; Everything up to the next header is emitted verbatim.

;; spec specFinite (f F64) -> Bool
(define-fun specFinite ((f F64)) Bool (and (not (fp.isNaN f)) (not (fp.isInfinite f))))

;; spec specJSONVal (v Val) -> Bool
; what encoding/json produces: null, booleans, finite numbers, strings, non-nil arrays and
; non-nil string-keyed objects of such values
(define-fun-rec specJSONVal ((v Val)) Bool
  (or ((_ is VNil) v) ((_ is VBool) v) ((_ is VStr) v)
      (and ((_ is VNum) v) (specFinite (vnum v)))
      (and ((_ is VArr) v) (not (varrnil v)) (<= 0 (vlen v))
           (forall ((i Int)) (! (=> (and (<= 0 i) (< i (vlen v))) (specJSONVal (select (varr v) i))) :pattern ((select (varr v) i)))))
      (and ((_ is VObj) v) (not (vobjnil v)) (<= 0 (vsize v))
           (forall ((k Str)) (! (=> (select (vdom v) k) (specJSONVal (select (vmap v) k))) :pattern ((select (vmap v) k)))))))

;; spec specDeepEq (a Val) (b Val) -> Bool
; deep JSON equality: never equal across types; numbers by IEEE ==; arrays element-wise
; (same length, same nil-ness); objects key-wise (same key set, same nil-ness)
(define-fun-rec specDeepEq ((a Val) (b Val)) Bool
  (or (and ((_ is VNil) a) ((_ is VNil) b))
      (and ((_ is VBool) a) ((_ is VBool) b) (= (vbool a) (vbool b)))
      (and ((_ is VNum) a) ((_ is VNum) b) (fp.eq (vnum a) (vnum b)))
      (and ((_ is VStr) a) ((_ is VStr) b) (= (vstr a) (vstr b)))
      (and ((_ is VArr) a) ((_ is VArr) b) (= (varrnil a) (varrnil b)) (= (vlen a) (vlen b))
           (forall ((i Int)) (! (=> (and (<= 0 i) (< i (vlen a))) (specDeepEq (select (varr a) i) (select (varr b) i))) :pattern ((select (varr a) i)))))
      (and ((_ is VObj) a) ((_ is VObj) b) (= (vobjnil a) (vobjnil b))
           (forall ((k Str)) (! (and (= (select (vdom a) k) (select (vdom b) k))
                                     (=> (select (vdom a) k) (specDeepEq (select (vmap a) k) (select (vmap b) k)))) :pattern ((select (vmap a) k)))))))
